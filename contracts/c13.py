"""C13 — distinct IR names map to distinct, legal, stable target identifiers.

Functions under contract (read from /repo on every run):
  dagrt/codegen/utils.py: make_identifier_from_name, _KeyTranslatingUniqueNameGeneratorWrapper.__call__,
      KeyToUniqueNameMap.get_or_make_name_for_key / get_mapped_identifier_without_key
  dagrt/codegen/python.py: PythonNameManager.name_global / name_local / name_function / __getitem__ / clear_locals
  dagrt/codegen/fortran.py: FortranNameManager.name_global / name_local / name_function / __getitem__ /
      make_unique_fortran_name
  dagrt/utils.py: is_state_variable
"""
import ast as pyast
import z3
from z3 import And, Or, Not, Implies, ForAll, Select, Store, If, IntSort, BoolSort

from pyvc.values import *  # noqa
from pyvc.contracts import FunctionContract, FunctionUnit, LemmaUnit
from pyvc import extract

PROP = "C13"
UTILS = "dagrt/codegen/utils.py"
PY = "dagrt/codegen/python.py"
FT = "dagrt/codegen/fortran.py"

# ==========================================================================
# 1. the sanitiser, over code-point arrays
# ==========================================================================


def is_ident_char(c):
    return Or(c == ord("_"), And(c >= ord("a"), c <= ord("z")), And(c >= ord("A"), c <= ord("Z")),
              And(c >= ord("0"), c <= ord("9")))


class VChars(V):
    """a str as (length, Array Int -> code point)"""
    ty = None

    def __init__(self, n, a):
        self.n, self.a = n, a

    def truth(self, it):
        return self.n > 0


def _lstrip(ctx, it, obj, args, kw):
    """str.lstrip("_"): drop the maximal prefix of underscores (builtin schema)"""
    o = ctx.deref(obj)
    arg = ctx.deref(args[0])
    if not (isinstance(arg, VPy) and arg.py == "_"):
        raise Unsupported("lstrip(%r)" % (arg,))
    k = z3.Int(fresh_name("stripped"))
    j = z3.Int("j")
    ctx.assume(And(0 <= k, k <= o.n))
    ctx.assume(ForAll([j], Implies(And(0 <= j, j < k), Select(o.a, j) == ord("_"))))
    ctx.assume(Implies(k < o.n, Select(o.a, k) != ord("_")))
    na = z3.Const(fresh_name("lstrip_a"), z3.ArraySort(IntSort(), IntSort()))
    ctx.assume(ForAll([j], Implies(And(0 <= j, j < o.n - k), Select(na, j) == Select(o.a, j + k))))
    return VChars(o.n - k, na)


VChars.methods = {"lstrip": _lstrip}


class Sanitiser(FunctionContract):
    prop = PROP
    relpath = UTILS
    qualname = "make_identifier_from_name"

    EXPECTED_IDENT_CHARS = "_ident_chars = set('_' + ascii_letters + digits)"

    def __init__(self):
        self.n = z3.Int("name_len")
        self.a = z3.Const("name_chars", z3.ArraySort(IntSort(), IntSort()))
        self.dn = z3.Int("default_len")
        self.da = z3.Const("default_chars", z3.ArraySort(IntSort(), IntSort()))

    def params(self, ctx):
        # the module-level constant the function closes over must be what the encoding assumes
        tree, _ = extract.parse_module(UTILS)
        found = [pyast.unparse(n) for n in tree.body if isinstance(n, pyast.Assign)
                 and any(isinstance(t, pyast.Name) and t.id == "_ident_chars" for t in n.targets)]
        if found != [self.EXPECTED_IDENT_CHARS]:
            raise Unsupported("module-level _ident_chars is %r, the encoding assumes %r" % (found, self.EXPECTED_IDENT_CHARS))
        ctx.env["name"] = VChars(self.n, self.a)
        ctx.env["default_identifier"] = VChars(self.dn, self.da)

    def requires(self, st):
        j = z3.Int("j")
        return [("lengths", And(self.n >= 0, self.dn >= 1)),
                # the default is itself a legal identifier (it is the literal "dagrt_var")
                ("default-is-legal", And(ForAll([j], Implies(And(0 <= j, j < self.dn), is_ident_char(Select(self.da, j)))),
                                         Select(self.da, 0) != ord("_")))]

    def comp(self, ctx, it, e):
        """[c if c in _ident_chars else "_" for c in name] followed by "".join: character-wise map"""
        src = ctx.deref(it.eval(e.generators[0].iter))
        ra = z3.Const(fresh_name("mapped_a"), z3.ArraySort(IntSort(), IntSort()))
        j = z3.Int("j")
        ctx.assume(ForAll([j], Implies(And(0 <= j, j < src.n),
                                       Select(ra, j) == If(is_ident_char(Select(src.a, j)), Select(src.a, j), ord("_")))))
        return VChars(src.n, ra)

    comprehensions = property(lambda self: {"[c if c in _ident_chars else '_' for c in name]": self.comp})

    def getattr_hook(self, ctx, it, obj, name):
        o = ctx.deref(obj)
        if isinstance(o, VPy) and o.py == "" and name == "join":
            return VFunc("join", lambda ctx, it, a, k: ctx.deref(a[0]))
        return None

    def ensures(self, st):
        r = st.result
        j = z3.Int("j")
        return [("non-empty", r.n >= 1),
                ("only-letters-digits-underscore", ForAll([j], Implies(And(0 <= j, j < r.n), is_ident_char(Select(r.a, j))))),
                ("does-not-start-with-underscore", Select(r.a, 0) != ord("_"))]


# ==========================================================================
# 2. the key -> unique name map (identifiers as an uninterpreted sort)
# ==========================================================================
Key = z3.DeclareSort("Key")
Ident = z3.DeclareSort("Ident")
KEY = TElem("Key", Key)
IDENT = TElem("Ident", Ident)
IdentSet = z3.ArraySort(Ident, BoolSort())
generated_by = z3.Function("generated_by_this_generator", Ident, BoolSort())   # A-UNG: has the forced prefix / form
MAP = TDict(KEY, IDENT)


class VGenerator(V):
    """A-UNG: pytools.UniqueNameGenerator / the translating wrapper: __call__ returns a name that
    was not in `existing`, adds it; every returned name carries the generator's forced prefix"""
    ty = None

    def __init__(self, existing_ref):
        self.existing_ref = existing_ref


def gen_call(ctx, it, gen, args, kw):
    ex = ctx.deref(gen.existing_ref)
    r = z3.Const(fresh_name("unique"), Ident)
    ctx.assume(Not(Select(ex.t, r)))
    ctx.assume(generated_by(r))
    ctx.store(gen.existing_ref, VSet(ex.ty, Store(ex.t, r, True)))
    return IDENT.wrap(r)


def map_invariant(D, EX):
    k1, k2 = z3.Consts("k1 k2", Key)
    return [
        ("distinct-keys-have-distinct-identifiers",
         ForAll([k1, k2], Implies(And(Select(D.dom, k1), Select(D.dom, k2), k1 != k2),
                                  Select(D.val, k1) != Select(D.val, k2)))),
        ("generated-identifiers-are-registered-with-the-generator",
         ForAll([k1], Implies(And(Select(D.dom, k1), generated_by(Select(D.val, k1))), Select(EX, Select(D.val, k1))))),
    ]


class GetOrMake(FunctionContract):
    prop = PROP
    relpath = UTILS
    qualname = "KeyToUniqueNameMap.get_or_make_name_for_key"

    def __init__(self):
        self.key = z3.Const("key", Key)

    def params(self, ctx):
        ex = ctx.alloc(TSet(IDENT).fresh("existing"))
        d = ctx.alloc(MAP.fresh("_dict"))
        ctx.env["$existing"] = ex
        ctx.env["self"] = ctx.alloc(VObj(TObj("KeyToUniqueNameMap", {}), {
            "_dict": d, "_generator": VFunc("_generator", lambda c, i, a, k: gen_call(c, i, VGenerator(ex), a, k))}))
        ctx.env["key"] = KEY.wrap(self.key)
        ctx.env["prefix"] = VPy("<prefix or None>")

    def equal_hook(self, ctx, it, a, b, identity):
        if isinstance(a, VPy) and isinstance(b, VNone):
            return z3.Bool(fresh_name("prefix_is_None"))
        return None

    def binop_hook(self, ctx, it, op, a, b):
        if op is pyast.Add and isinstance(a, VPy) and isinstance(b, VElem):
            return VPy("<prefix+seed>")
        return None

    def requires(self, st):
        D, EX = st.field("self", "_dict"), st._deref(st._env["$existing"]).t
        return map_invariant(D, EX)

    def ensures(self, st):
        D0, D1 = st.old.field("self", "_dict"), st.field("self", "_dict")
        EX0, EX1 = st.old._deref(st.old._env["$existing"]).t, st._deref(st._env["$existing"]).t
        k = z3.Const("k", Key)
        i = z3.Const("i", Ident)
        r = st.result.t
        return ([("known-key-gets-its-stored-identifier-again",
                  Implies(Select(D0.dom, self.key), And(r == Select(D0.val, self.key), D1.dom == D0.dom, D1.val == D0.val))),
                 ("the-identifier-is-stored-for-later-lookups", And(Select(D1.dom, self.key), Select(D1.val, self.key) == r)),
                 ("no-other-key-changes",
                  ForAll([k], Implies(k != self.key, And(Select(D1.dom, k) == Select(D0.dom, k),
                                                         Implies(Select(D0.dom, k), Select(D1.val, k) == Select(D0.val, k)))))),
                 ("generator-only-grows", ForAll([i], Implies(Select(EX0, i), Select(EX1, i))))]
                + [("invariant/" + n, f) for n, f in map_invariant(D1, EX1)])


class VNameGenerator(V):
    """a pytools.UniqueNameGenerator object (A-UNG): .forced_prefix, .add_name(n) registers n"""
    ty = None

    def __init__(self, existing_ref):
        self.existing_ref = existing_ref


def _gen_add_name(ctx, it, obj, args, kw):
    g = ctx.deref(obj)
    ex = ctx.deref(g.existing_ref)
    ctx.store(g.existing_ref, VSet(ex.ty, Store(ex.t, ctx.deref(args[0]).t, True)))
    return NONE


VNameGenerator.methods = {"add_name": _gen_add_name}
IDENT.methods["startswith"] = lambda ctx, it, obj, args, kw: VBool(generated_by(ctx.deref(obj).t))


class MapInit(FunctionContract):
    """KeyToUniqueNameMap.__init__ with a start dict and a pre-existing generator: the map owns a fresh copy
    of the start dict, and every start value that carries the generator's prefix is registered with it"""
    prop = PROP
    relpath = UTILS
    qualname = "KeyToUniqueNameMap.__init__"

    def params(self, ctx):
        ex = ctx.alloc(TSet(IDENT).fresh("existing"))
        ctx.env["$existing"] = ex
        ctx.env["self"] = ctx.alloc(VObj(TObj("KeyToUniqueNameMap", {"_dict": MAP, "_generator": MAP}), {}))
        ctx.env["start"] = ctx.alloc(MAP.fresh("start"))
        ctx.env["forced_prefix"] = VPy("")
        ctx.env["key_translate_func"] = VPy("<translate>")
        ctx.env["name_generator"] = VNameGenerator(ex)

    def requires(self, st):
        D = st.start
        k1, k2 = z3.Consts("k1 k2", Key)
        return [("start-dict-is-injective", ForAll([k1, k2], Implies(And(Select(D.dom, k1), Select(D.dom, k2), k1 != k2),
                                                                     Select(D.val, k1) != Select(D.val, k2))))]

    def m_dict(self, ctx, it, args, kw):
        d = ctx.deref(args[0])
        return ctx.alloc(VDict(d.ty, d.dom, d.val))       # dict(x): a new dict object with the same items

    def m_wrapper(self, ctx, it, args, kw):
        # the wrapper must get the generator in use and the caller's translation function, nothing else
        a = [ctx.deref(x) for x in args]
        if kw or len(a) != 2 or not isinstance(a[0], VNameGenerator) or not (isinstance(a[1], VPy) and a[1].py == "<translate>"):
            raise Unsupported("_KeyTranslatingUniqueNameGeneratorWrapper(%r, %r)" % (args, kw))
        self.wrapped = a[0]
        return VPy("<wrapper of the generator in use and key_translate_func>")

    def m_new_generator(self, ctx, it, args, kw):
        # only reached when no generator is passed: it must carry the forced prefix
        fp = ctx.deref(kw["forced_prefix"]) if set(kw) == {"forced_prefix"} and not args else None
        if not (isinstance(fp, VPy) and fp.py == self.prefix_marker):
            raise Unsupported("UniqueNameGenerator(%r, %r): the map's names carry its forced prefix only if the generator gets it"
                              % (args, kw))
        g = VNameGenerator(ctx.env["$existing"])       # its set of names: the ghost the invariants speak about
        self.made = g
        return g

    prefix_marker = ""

    names = property(lambda self: {
        "dict": VFunc("dict", self.m_dict),
        "_KeyTranslatingUniqueNameGeneratorWrapper": VFunc("wrapper", self.m_wrapper),
        "UniqueNameGenerator": VFunc("UniqueNameGenerator", self.m_new_generator)})

    def getattr_hook(self, ctx, it, obj, name):
        o = ctx.deref(obj)
        if isinstance(o, VNameGenerator) and name == "forced_prefix":
            return VPy("<forced_prefix>")
        return None

    def truth_hook(self):
        pass

    def equal_hook(self, ctx, it, a, b, identity):
        if isinstance(b, VNone) and isinstance(a, (VDict, VNameGenerator)) or isinstance(a, VNone) and isinstance(b, (VDict, VNameGenerator)):
            return z3.BoolVal(False)
        return None

    def inv(self, s):
        v = z3.Const("v", Ident)
        EX = s._deref(s._env["$existing"]).t
        return [("processed-prefixed-start-values-are-registered",
                 ForAll([v], Implies(And(Select(s.loop(0)["$proc"].t, v), generated_by(v)), Select(EX, v)))),
                ("start-unchanged", And(s.start.dom == s.old.start.dom, s.start.val == s.old.start.val))]

    loops = property(lambda self: {0: dict(shape="for existing_name in start.values()", inv=self.inv,
                                           havoc_refs=lambda ctx: [ctx.env["$existing"]])})

    def ensures(self, st):
        selfo = st._deref(st._env["self"])
        dref = selfo.fields.get("_dict")
        D = st._deref(dref)
        EX = st._deref(st._env["$existing"]).t
        k1 = z3.Const("k1", Key)
        return [("the-map-owns-a-fresh-copy-of-the-start-dict(no-aliasing-with-the-caller's-object)",
                 z3.BoolVal(isinstance(dref, VRef) and dref.loc != st._env["start"].loc)),
                ("same-items-as-start", And(D.dom == st.old.start.dom, D.val == st.old.start.val)),
                ("prefixed-start-values-are-registered-with-the-generator",
                 ForAll([k1], Implies(And(Select(D.dom, k1), generated_by(Select(D.val, k1))), Select(EX, Select(D.val, k1))))),
                ("names-are-made-by-the-given-generator-through-the-caller's-translation-function",
                 z3.BoolVal(getattr(st._deref(selfo.fields.get("_generator")), "py", None)
                            == "<wrapper of the generator in use and key_translate_func>"
                            and getattr(self, "wrapped", None) is self.generator_in_use(st)))]

    def generator_in_use(self, st):
        return st._deref(st._env["name_generator"])


class MapInitOwnGenerator(MapInit):
    """the same with no generator passed: the map makes its own UniqueNameGenerator, which must get the forced prefix"""
    variant_name = "own-generator"
    prefix_marker = "<forced_prefix>"

    def params(self, ctx):
        MapInit.params(self, ctx)
        ctx.env["forced_prefix"] = VPy("<forced_prefix>")
        ctx.env["name_generator"] = NONE

    def generator_in_use(self, st):
        return getattr(self, "made", None)


# ==========================================================================
# 3. name spaces of the two managers (string prefixes, z3 strings) and storage classes
# ==========================================================================
def prefix_lemmas():
    s = z3.String("s")
    P = lambda p: z3.PrefixOf(z3.StringVal(p), s)  # noqa
    items = []
    py = {"local": "local", "global": "self.global_", "function": "self._functions."}
    names = sorted(py)
    for i in range(len(names)):
        for j in range(i + 1, len(names)):
            items.append(("python/%s-and-%s-identifiers-are-disjoint" % (names[i], names[j]), [],
                          Not(And(P(py[names[i]]), P(py[names[j]])))))
    for fixed in ("self.t", "self.dt"):
        for n in names:
            items.append(("python/%s-is-not-a-%s-identifier" % (fixed, n), [], Not(z3.PrefixOf(z3.StringVal(py[n]), z3.StringVal(fixed)))))
    items.append(("python/persistent-identifiers-are-instance-attributes", [P(py["global"])], P("self.")))
    items.append(("python/local-identifiers-are-not-instance-attributes", [P(py["local"])], Not(P("self."))))
    # a local identifier is "local" + sanitised text (+ "_" + digits): a legal Python identifier start
    items.append(("python/local-identifier-starts-with-a-letter", [P("local")], z3.SubString(s, 0, 1) == z3.StringVal("l")))
    ft = {"local": "lploc_", "fresh": "drtf_"}
    items.append(("fortran/local-and-fresh-identifiers-are-disjoint", [], Not(And(P(ft["local"]), P(ft["fresh"])))))
    for p in ft.values():
        items.append(("fortran/%s-is-not-reserved-dagrt_" % p, [P(p)], Not(P("dagrt_"))))
    return [], items


def reserved_lemma():
    """identifiers the Python templates use for themselves never look like a generated local
    (collected mechanically from the emitted-code templates in python.py)"""
    tree, text = extract.parse_module(PY)
    idents = set()
    for node in pyast.walk(tree):
        if isinstance(node, pyast.Constant) and isinstance(node.value, str) and "\n" in node.value \
                and ("def " in node.value or "self." in node.value):
            import re
            idents.update(re.findall(r"[A-Za-z_][A-Za-z_0-9]*", node.value))
    bad_local = sorted(i for i in idents if i.startswith("local"))
    bad_global = sorted(i for i in idents if i.startswith("global_"))
    return [], [("python/no-template-identifier-looks-like-a-generated-local(%d identifiers scanned)" % len(idents), [],
                 z3.BoolVal(not bad_local and len(idents) > 20)),
                ("python/no-template-attribute-looks-like-a-generated-global", [], z3.BoolVal(not bad_global))]


# ---- is_state_variable and __getitem__ ---------------------------------------------------------
class IsStateVariable(FunctionContract):
    prop = PROP
    relpath = "dagrt/utils.py"
    qualname = "is_state_variable"
    strings_symbolic = True

    def __init__(self):
        self.var = z3.String("var")

    def params(self, ctx):
        ctx.env["var"] = VStr(self.var)

    def contains_hook(self):
        pass

    def ensures(self, st):
        v = self.var
        P = lambda p: z3.PrefixOf(z3.StringVal(p), v)  # noqa
        spec = Or(v == z3.StringVal("<t>"), v == z3.StringVal("<dt>"), P("<state>"), P("<p>"),
                  P("<ret_time_id>"), P("<ret_time>"), P("<ret_state>"))
        return [("persistent-iff-time-stepsize-or-tagged-state", st.result.t == spec)]


class GetItem(FunctionContract):
    """__getitem__ of a name manager: persistent names go to instance/state storage, others to locals"""
    prop = PROP

    def __init__(self, relpath, qualname):
        self.relpath = relpath
        self.qualname = qualname
        self.persistent = z3.Bool("is_state_variable(name)")

    def params(self, ctx):
        ctx.env["self"] = VObj(TObj("NameManager", {}), {})
        ctx.env["name"] = VPy("<name>")
        ctx.ghost["via"] = z3.StringVal("")

    def m_global(self, ctx, it, args, kw):
        ctx.ghost["via"] = z3.StringVal("global")
        return VPy("<global identifier>")

    def m_local(self, ctx, it, args, kw):
        ctx.ghost["via"] = z3.StringVal("local")
        return VPy("<local identifier>")

    calls = property(lambda self: {"self.name_global": self.m_global, "self.name_local": self.m_local})
    def m_is_state(self, ctx, it, args, kw):
        a = ctx.deref(args[0]) if len(args) == 1 and not kw else None
        if not (isinstance(a, VPy) and a.py == "<name>"):
            raise Unsupported("is_state_variable(%r): the storage class must be decided on the name that was asked for" % (args,))
        return VBool(self.persistent)

    names = property(lambda self: {"is_state_variable": VFunc("is_state_variable", self.m_is_state)})

    def binop_hook(self, ctx, it, op, a, b):
        if op is pyast.Add and isinstance(a, VPy) and isinstance(b, VPy):
            return VPy("<concat>")
        return None

    def ensures(self, st):
        return [("persistent-names-use-global-storage-others-local",
                 st.g("via") == If(self.persistent, z3.StringVal("global"), z3.StringVal("local")))]


def _units_core():
    return [FunctionUnit(Sanitiser()), FunctionUnit(MapInit()), FunctionUnit(MapInitOwnGenerator()), FunctionUnit(GetOrMake()), FunctionUnit(IsStateVariable()),
            FunctionUnit(GetItem(PY, "PythonNameManager.__getitem__")),
            FunctionUnit(GetItem(FT, "FortranNameManager.__getitem__")),
            LemmaUnit("lemma:name-spaces", prefix_lemmas),
            LemmaUnit("lemma:reserved-identifiers", reserved_lemma)]


def units():
    from . import c13names
    return _units_core() + c13names.units()


LEVEL = "proof"
BOUNDED = {"quick": {"timeout_s": 60}, "thorough": {"timeout_s": 600}}
TRUSTED_BASE = [
    "A-UNG: pytools.UniqueNameGenerator.__call__ returns a name not in `existing`, adds it, and the name carries the generator's forced prefix followed by the (possibly de-suffixed) base and an optional _<digits> suffix",
    "builtin schemas: character-wise list comprehension + ''.join, str.lstrip('_'), str.startswith as z3 PrefixOf",
    "module-level `_ident_chars = set('_' + ascii_letters + digits)` is compared textually with what the encoding assumes (mismatch => undecided)",
]
ASSUMPTIONS = [
    "identifiers are abstract (uninterpreted) in the map contract; legality of a generated identifier = forced prefix + sanitised text (+ suffix), argued from the sanitiser's postcondition and A-UNG, not proved end to end",
    "'same identifier on every later lookup' is per scope for Python locals: clear_locals() starts a new scope (locals of different phase functions are different Python variables)",
    "documented precondition: user names do not start with dagrt_",
    "case-insensitive distinctness and the 63-character limit of Fortran are NOT established by the code: findings D15, D16 (plus D29, D30) come from the bounded stand-in and are listed by fingerprint",
]
EXPLANATION = ("make_identifier_from_name is proved over code-point arrays (any length, any characters) to return a non-empty string of "
               "letters, digits and underscores that does not start with an underscore. KeyToUniqueNameMap.get_or_make_name_for_key is "
               "proved to keep the representation invariant (distinct keys -> distinct identifiers; generated identifiers registered with "
               "the generator), to return the stored identifier on every later lookup and to change no other key. is_state_variable is proved "
               "to be exactly the tag-prefix predicate; both managers' __getitem__ route persistent names to global storage and the rest to "
               "locals; the prefix name spaces (local / self.global_ / self._functions. / self.t / self.dt; lploc_ / drtf_ / dagrt_) are proved "
               "pairwise disjoint with z3 strings, and no identifier of the emitted-code templates looks like a generated local.")
