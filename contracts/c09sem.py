"""C09 — what the arithmetic rules of KindInferenceMapper compute: the JOIN (the real unify, through its outcome function
U, proved to be a partial join in C14) of the kinds of ALL operands.

  map_product_like(children)  = U-fold over rec(child) for every child, in order (any failure propagates)
  map_sum(expr)               = U-fold over the children whose kind can be inferred (all of them when check is set;
                                at least one must be inferable)
  map_product / map_quotient / map_power delegate to map_product_like with (all children) / (numerator, denominator) /
                                (base, exponent)  - in particular the exponent's kind is part of a power's kind
Run with 1, 2 and 3 operands (the loops are uniform).  A-NUMPY (assumed, exercised by the bounded stand-in): the value of
an arithmetic operation has a kind below the join of its operands' kinds (exceptions are findings D13, D37).
"""
import itertools
import z3
from z3 import And, Or, Not, Implies, If

from pyvc.values import *  # noqa
from pyvc.contracts import FunctionContract, FunctionUnit
from .kinds import Kind, Outcome, KIND, KIND_CLASSES
from .c14 import UnifyUnit, UnifyContract

REL = "dagrt/data.py"
B = z3.BoolVal
_UU = {}


def U(a, b):
    if "u" not in _UU:
        uu = UnifyUnit(UnifyContract())
        uu.generate()
        _UU["u"] = uu
    return _UU["u"].U(a, b)


def ufold(kinds):
    """-> (defined: Bool, value: Kind) of unify(...unify(unify(None, k0), k1)..., kn)"""
    acc = Kind.NoneK
    ok = B(True)
    for k in kinds:
        o = U(acc, k)
        ok = And(ok, Outcome.is_Ok(o))
        acc = Outcome.ok_kind(o)
    return ok, acc


class VChild(V):
    ty = None

    def __init__(self, i):
        self.i = i


class JoinContract(FunctionContract):
    prop = "C09"
    relpath = REL
    exc_hierarchy = {"UnableToInferKind": ["Exception"]}
    any_raise_ok = True

    def __init__(self, method, n, check=None):
        self.method = method
        self.qualname = "KindInferenceMapper." + method
        self.n = n
        self.check = check
        self.variant_name = "operands=%d" % n + ("" if check is None else ",check=%s" % check)
        self.kinds = [z3.Const("kind_of_operand_%d" % i, Kind) for i in range(n)]
        self.inferable = [z3.Bool("operand_%d_can_be_inferred" % i) for i in range(n)]

    def params(self, ctx):
        self.failed = [None] * self.n
        ctx.env["self"] = VObj(TObj("KIM", {}), {"check": VBool(B(bool(self.check))), "rec": VFunc("rec", self.m_rec)})
        ch = VTuple([VChild(i) for i in range(self.n)])
        ctx.env["children"] = ch
        ctx.env["expr"] = VObj(TObj("expr", {}), {"children": ch})
        for k in self.kinds:
            ctx.assume(Not(Kind.is_NoneK(k)))

    def m_rec(self, ctx, it, args, kw):
        c = ctx.deref(args[0])
        if not isinstance(c, VChild):
            raise Unsupported("rec(%r)" % (c,))
        if not ctx.branch(self.inferable[c.i], "inferable"):
            self.failed[c.i] = True
            ctx.raise_("UnableToInferKind")
        self.failed[c.i] = False
        return KIND.wrap(self.kinds[c.i])

    def m_unify(self, ctx, it, args, kw):
        a, b = ctx.deref(args[0]), ctx.deref(args[1])
        at = Kind.NoneK if isinstance(a, VNone) else a.t
        bt = Kind.NoneK if isinstance(b, VNone) else b.t
        o = U(at, bt)
        if not ctx.branch(Outcome.is_Ok(o), "unify-defined"):
            ctx.raise_("ValueError")
        return KIND.wrap(Outcome.ok_kind(o))

    names = property(lambda self: dict(KIND_CLASSES, unify=VFunc("unify", self.m_unify),
                                       UnableToInferKind=VClass("UnableToInferKind")))

    def equal_hook(self, ctx, it, a, b, identity):
        if isinstance(a, VExc) and isinstance(b, VNone) or isinstance(b, VExc) and isinstance(a, VNone):
            return B(False)
        return None

    def ensures(self, st):
        r = st.result
        if not isinstance(r, VElem):
            return [("returns-a-kind", B(False))]
        if self.method == "map_product_like":
            ok, val = ufold(self.kinds)
            return [("every-operand-was-inferred", And(*self.inferable)),
                    ("result-is-the-join-of-the-kinds-of-all-operands", And(ok, r.t == val))]
        # map_sum: the join over the operands that can be inferred
        used = [k for k, f in zip(self.kinds, self.failed) if f is False]
        ok, val = ufold(used)
        out = [("result-is-the-join-of-the-kinds-of-the-operands-that-can-be-inferred", And(ok, r.t == val)),
               ("at-least-one-operand-was-inferred", B(len(used) >= 1)),
               ("every-operand-was-looked-at", B(all(f is not None for f in self.failed)))]
        if self.check:
            out.append(("with-check-every-operand-was-inferred", B(len(used) == self.n)))
        return out


class Delegation(FunctionContract):
    """map_product / map_quotient / map_power hand ALL their operands to map_product_like and return its answer"""
    prop = "C09"
    relpath = REL
    any_raise_ok = True

    WANT = {"map_product": ("expr.children",), "map_quotient": (("expr.numerator", "expr.denominator"),),
            "map_power": (("expr.base", "expr.exponent"),)}

    def __init__(self, method, check=False):
        self.method = method
        self.qualname = "KindInferenceMapper." + method
        self.check = check
        self.variant_name = "check=%s" % check if method == "map_power" else ""

    def params(self, ctx):
        self.got = None
        ctx.env["self"] = VObj(TObj("KIM", {}), {"check": VBool(B(self.check)), "rec": VFunc("rec", self.m_rec),
                                                 "map_product_like": VFunc("map_product_like", self.m_pl)})
        ctx.env["expr"] = VPy("expr")

    def m_rec(self, ctx, it, args, kw):
        k = z3.Const(fresh_name("kind"), Kind)
        return KIND.wrap(k)

    def m_pl(self, ctx, it, args, kw):
        a = ctx.deref(args[0])
        self.got = (tuple(getattr(ctx.deref(x), "py", "?") for x in a.items),) if isinstance(a, VTuple) else (getattr(a, "py", "?"),)
        return VPy("<answer of map_product_like>")

    def getattr_hook(self, ctx, it, obj, name):
        o = ctx.deref(obj)
        if isinstance(o, VPy) and isinstance(o.py, str):
            return VPy("%s.%s" % (o.py, name))
        return None

    def binop_hook(self, ctx, it, op_, a, b):
        import ast as pyast
        if op_ is pyast.Mod and isinstance(a, VPy):
            return VPy("<message>")
        return None

    names = property(lambda self: dict(KIND_CLASSES, type=VFunc("type", lambda ctx, it, a, k: VPy("<type>"))))

    def ensures(self, st):
        return [("all-operands-go-to-map_product_like(for-a-power:-base-AND-exponent)", B(self.got == self.WANT[self.method])),
                ("its-answer-is-returned", B(getattr(st.result, "py", None) == "<answer of map_product_like>"))]


def units():
    us = [FunctionUnit(JoinContract("map_product_like", n)) for n in (1, 2, 3)]
    us += [FunctionUnit(JoinContract("map_sum", n, check=c)) for n in (1, 2, 3) for c in (False, True)]
    us += [FunctionUnit(Delegation("map_product")), FunctionUnit(Delegation("map_quotient")),
           FunctionUnit(Delegation("map_power", False)), FunctionUnit(Delegation("map_power", True))]
    return us


# ---- the non-arithmetic rules ------------------------------------------------------------------------------------------
class SimpleRule(FunctionContract):
    """map_comparison / map_logical_or (= map_logical_and) / map_logical_not -> Boolean (with check: every operand must be a
    flag); map_max (= map_min) -> a real scalar (finding D39 for other operands); map_subscript -> the scalar of the
    aggregate's element type (with check: the aggregate must be an array); map_constant -> complex scalar exactly for a
    complex constant, real scalar otherwise"""
    prop = "C09"
    relpath = REL
    exc_hierarchy = {"UnableToInferKind": ["Exception"]}
    any_raise_ok = True

    def __init__(self, method, check=False, n=1):
        self.method = method
        self.qualname = "KindInferenceMapper." + method
        self.check, self.n = check, n
        self.variant_name = "check=%s" % check + (",operands=%d" % n if method == "map_logical_or" else "")
        self.kinds = [z3.Const("kind_of_operand_%d" % i, Kind) for i in range(n)]
        # the type of the constant: the built-in complex (numpy.complex128 is a subclass of it) / a numpy complexfloating
        # (numpy.complex64 is only that)
        self.is_py_complex = z3.Bool("constant_is_a_Python_complex")
        self.is_np_complex = z3.Bool("constant_is_a_numpy_complexfloating")
        self.is_complex = z3.Or(self.is_py_complex, self.is_np_complex)

    def params(self, ctx):
        ch = VTuple([VChild(i) for i in range(self.n)])
        ctx.env["self"] = VObj(TObj("KIM", {}), {"check": VBool(B(self.check)), "rec": VFunc("rec", self.m_rec)})
        ctx.env["expr"] = VObj(TObj("expr", {}), {"children": ch, "child": VChild(0), "aggregate": VChild(0), "index": VPy("<index>")})
        for k in self.kinds:
            ctx.assume(Not(Kind.is_NoneK(k)))

    def m_rec(self, ctx, it, args, kw):
        c = ctx.deref(args[0])
        if not isinstance(c, VChild):
            raise Unsupported("rec(%r)" % (c,))
        return KIND.wrap(self.kinds[c.i])

    def isinstance_hook(self, ctx, it, obj, names):
        table = {"complex": self.is_py_complex, "np.complexfloating": self.is_np_complex,
                 "numpy.complexfloating": self.is_np_complex}
        if isinstance(obj, VObj) and names and all(n in table for n in names):
            return VBool(z3.Or(*[table[n] for n in names]))
        return None

    def binop_hook(self, ctx, it, op_, a, b):
        import ast as pyast
        if op_ is pyast.Mod and isinstance(a, VPy):
            return VPy("<message>")
        return None

    def getattr_hook(self, ctx, it, obj, name):
        o = ctx.deref(obj)
        if isinstance(o, VPy) and o.py in ("np", "numpy") and name == "complexfloating":
            return VClass("np.complexfloating")
        return None

    names = property(lambda self: dict(KIND_CLASSES, complex=VClass("complex"), np=VPy("np"), numpy=VPy("numpy"),
                                       type=VFunc("type", lambda ctx, it, a, k: VObj(TObj("t", {}), {"__name__": VPy("<name>")}))))

    def ensures(self, st):
        r = st.result
        if not isinstance(r, VElem):
            return [("returns-a-kind", B(False))]
        m = self.method
        if m in ("map_comparison", "map_logical_or", "map_logical_not"):
            out = [("a-flag", r.t == Kind.Boolean)]
            if self.check and m != "map_comparison":
                out.append(("with-check-every-operand-is-a-flag", And(*[Kind.is_Boolean(k) for k in self.kinds])))
            return out
        if m == "map_max":
            return [("a-real-scalar", r.t == Kind.Scalar(True))]
        if m == "map_constant":
            return [("complex-scalar-exactly-for-a-constant-of-a-complex-type(built-in-or-numpy)",
                     r.t == Kind.Scalar(Not(self.is_complex)))]
        if m == "map_subscript":
            a = self.kinds[0]
            out = [("the-scalar-of-the-aggregate's-element-type",
                    Implies(Kind.is_Array(a), r.t == Kind.Scalar(Kind.a_real(a))))]
            if self.check:
                out.append(("with-check-the-aggregate-is-an-array", Kind.is_Array(a)))
            return out
        return [("unknown-rule", B(False))]


_units_arith = units


def units():
    us = _units_arith()
    for c in (False, True):
        us += [FunctionUnit(SimpleRule("map_comparison", c)), FunctionUnit(SimpleRule("map_logical_not", c)),
               FunctionUnit(SimpleRule("map_logical_or", c, 1)), FunctionUnit(SimpleRule("map_logical_or", c, 2)),
               FunctionUnit(SimpleRule("map_max", c)), FunctionUnit(SimpleRule("map_subscript", c)),
               FunctionUnit(SimpleRule("map_constant", c))]
    return us
