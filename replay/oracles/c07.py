"""Native oracle for C07: the four statement-rewriting passes of dagrt.codegen.transform.

Inputs are small structured phases given as JSON statement descriptions; the real statements are built,
the real `create_ast_from_phase` structures them ("ast" mode; "flat" mode wraps the statements directly and
leaves their guards on the statements, which is the form `expand_IfThenElse` itself produces), the real passes
rewrite them, and an independent tree-walking executor in this file runs the phase before and after.

input (what `replay` accepts):
  {"program": {"mode": "ast"|"flat", "stmts": [STMT...], "valseed": int, "nvals": int},
   "pipeline": "self"|"args"|"calls"|"ite"|"fortran"    (optional: default all),
   "clause": "<clause name>"                             (optional: default any)}
  STMT = {"id": str, "k": "assign", "lhs": name, "sub": E|null, "rhs": E, "cond": E|null, "loops": [[ident, E, E]]}
       | {"id": str, "k": "call", "lhs": [names], "fn": "f"|"g", "args": [E...], "kw": {name: E}, "cond": E|null}
  E = ["v", name] | ["c", int] | ["sub", name, E] | ["+", E, E] | ["*", E, E] | ["<", E, E]
    | ["call", fn, [E...], {kw: E}] | ["if", E, E, E] | ["not", E] | ["and", E, E]
  statement i depends on statement i-1 (a chain), so the program order is the list order.
"""
import json
import random
import re
from collections import Counter

from pymbolic import primitives as P
from pytools import UniqueNameGenerator

from dagrt import language as lang
from dagrt.codegen import dag_ast as A
from dagrt.codegen import transform as T

ARRAYS = ("a", "<p>b")
ARRLEN = 4
PASS_OF = {"self": "eliminate_self_dependencies", "args": "isolate_function_arguments",
           "calls": "isolate_function_calls", "ite": "expand_IfThenElse"}


def fortran_order():
    """the order in which dagrt/codegen/fortran.py applies the passes, read from its source"""
    try:
        import dagrt.codegen.fortran as F
        src = open(F.__file__).read()
        found = re.findall(r"ast = (\w+)\(ast\)", src)
        inv = {v: k for k, v in PASS_OF.items()}
        order = [inv[n] for n in found if n in inv]
        if sorted(order) == sorted(PASS_OF):
            return order
    except Exception:
        pass
    return ["self", "args", "calls", "ite"]


_PIPELINES = None


def pipelines():
    global _PIPELINES
    if _PIPELINES is None:
        _PIPELINES = {k: [k] for k in PASS_OF}
        _PIPELINES["fortran"] = fortran_order()
    return _PIPELINES


# ---------------------------------------------------------------- building real objects

def mk(e):
    t = e[0]
    if t == "v":
        return P.Variable(e[1])
    if t == "c":
        return e[1]
    if t == "sub":
        return P.Variable(e[1])[mk(e[2])]
    if t == "+":
        return P.Sum((mk(e[1]), mk(e[2])))
    if t == "*":
        return P.Product((mk(e[1]), mk(e[2])))
    if t == "<":
        return P.Comparison(mk(e[1]), "<", mk(e[2]))
    if t == "call":
        fn = P.Variable("<func>" + e[1])
        args = tuple(mk(a) for a in e[2])
        kw = e[3] if len(e) > 3 and e[3] else None
        if kw:
            from immutabledict import immutabledict
            return P.CallWithKwargs(fn, args, immutabledict({k: mk(v) for k, v in kw.items()}))      # keyword order as written
        return P.Call(fn, args)
    if t == "if":
        return P.If(mk(e[1]), mk(e[2]), mk(e[3]))
    if t == "not":
        return P.LogicalNot(mk(e[1]))
    if t == "and":
        return P.LogicalAnd((mk(e[1]), mk(e[2])))
    raise ValueError("bad expression tag %r" % (t,))


def build_statements(prog):
    out = []
    prev = None
    for s in prog["stmts"]:
        cond = mk(s["cond"]) if s.get("cond") else True
        deps = frozenset([prev]) if prev is not None else frozenset()
        if s["k"] == "assign":
            sub = (mk(s["sub"]),) if s.get("sub") else ()
            loops = [(l[0], mk(l[1]), mk(l[2])) for l in s.get("loops") or []]
            st = lang.Assign(assignee=s["lhs"], assignee_subscript=sub, expression=mk(s["rhs"]),
                             loops=loops, condition=cond, id=s["id"], depends_on=deps)
        else:
            st = lang.AssignFunctionCall(assignees=tuple(s["lhs"]), function_id="<func>" + s["fn"],
                                         parameters=tuple(mk(a) for a in s["args"]),
                                         kw_parameters={k: mk(v) for k, v in (s.get("kw") or {}).items()},
                                         condition=cond, id=s["id"], depends_on=deps)
        out.append(st)
        prev = s["id"]
    return out


def build_ast(prog):
    stmts = build_statements(prog)
    if prog.get("mode", "ast") == "ast":
        code = lang.DAGCode({"p": lang.ExecutionPhase("p", "p", stmts)}, "p")
        return A.create_ast_from_phase(code, "p")
    nodes = []
    for st in stmts:                     # "flat": loops become ForLoop nodes, guards stay on the statement
        loops = list(getattr(st, "loops", []) or [])
        node = A.StatementWrapper(st.copy(loops=[]) if loops else st)
        for ident, lo, hi in reversed(loops):
            node = A.ForLoop(ident, lo, hi, node)
        nodes.append(node)
    return nodes[0] if len(nodes) == 1 else A.Block(*nodes)


# ---------------------------------------------------------------- independent syntax walkers

def expr_names(e, acc):
    if isinstance(e, P.Variable):
        acc.add(e.name)
    elif isinstance(e, (P.Call, P.CallWithKwargs)):
        for a in e.parameters:
            expr_names(a, acc)
        if isinstance(e, P.CallWithKwargs):
            for a in e.kw_parameters.values():
                expr_names(a, acc)
    elif isinstance(e, P.Subscript):
        expr_names(e.aggregate, acc)
        expr_names(e.index, acc)
    elif isinstance(e, (P.Sum, P.Product, P.LogicalAnd, P.LogicalOr)):
        for c in e.children:
            expr_names(c, acc)
    elif isinstance(e, P.Comparison):
        expr_names(e.left, acc)
        expr_names(e.right, acc)
    elif isinstance(e, P.LogicalNot):
        expr_names(e.child, acc)
    elif isinstance(e, P.If):
        expr_names(e.condition, acc)
        expr_names(e.then, acc)
        expr_names(e.else_, acc)
    elif isinstance(e, (tuple, list)):
        for c in e:
            expr_names(c, acc)
    elif isinstance(e, (int, float, bool)) or e is None:
        pass
    else:
        raise TypeError("walker: unexpected node %r" % type(e).__name__)
    return acc


def stmt_writes(st):
    if isinstance(st, lang.Assign):
        return {st.assignee}
    if isinstance(st, lang.AssignFunctionCall):
        return set(st.assignees)
    return set()


def stmt_reads(st):
    acc = set()
    if st.condition is not True:
        expr_names(st.condition, acc)
    if isinstance(st, lang.Assign):
        expr_names(st.rhs, acc)
        expr_names(st.assignee_subscript, acc)
        for _, lo, hi in st.loops:
            expr_names(lo, acc)
            expr_names(hi, acc)
    elif isinstance(st, lang.AssignFunctionCall):
        expr_names(tuple(st.parameters), acc)
        expr_names(tuple(st.kw_parameters.values()), acc)
    return acc


def occurrences(ast):
    """name -> set of roles ('stmt', 'lhs_sub', 'loop_bound', 'loop_ident', 'guard_node', 'written')"""
    occ = {}

    def add(names, role):
        for n in names:
            occ.setdefault(n, set()).add(role)

    def walk(n):
        if isinstance(n, A.StatementWrapper):
            st = n.statement
            add(stmt_writes(st), "written")
            acc = set()
            if st.condition is not True:
                expr_names(st.condition, acc)
            if isinstance(st, lang.Assign):
                expr_names(st.rhs, acc)
                add(expr_names(st.assignee_subscript, set()), "lhs_sub")
                for ident, lo, hi in st.loops:
                    add([ident], "loop_ident")
                    add(expr_names(lo, set()) | expr_names(hi, set()), "loop_bound")
            elif isinstance(st, lang.AssignFunctionCall):
                expr_names(tuple(st.parameters), acc)
                expr_names(tuple(st.kw_parameters.values()), acc)
            add(acc, "stmt")
        elif isinstance(n, A.Block):
            for c in n.children:
                walk(c)
        elif isinstance(n, A.IfThenElse):
            add(expr_names(n.condition, set()), "guard_node")
            walk(n.then)
            walk(n.else_)
        elif isinstance(n, A.IfThen):
            add(expr_names(n.condition, set()), "guard_node")
            walk(n.then)
        elif isinstance(n, A.ForLoop):
            add([n.loop_var_name], "loop_ident")
            add(expr_names(n.lbound, set()) | expr_names(n.ubound, set()), "loop_bound")
            walk(n.body)
        elif isinstance(n, A.NullASTNode):
            pass
        else:
            raise TypeError("ast walker: unexpected node %r" % type(n).__name__)
    walk(ast)
    return occ


def linear_statements(n, out=None):
    out = [] if out is None else out
    if isinstance(n, A.StatementWrapper):
        out.append(n.statement)
    elif isinstance(n, A.Block):
        for c in n.children:
            linear_statements(c, out)
    elif isinstance(n, A.IfThenElse):
        linear_statements(n.then, out)
        linear_statements(n.else_, out)
    elif isinstance(n, A.IfThen):
        linear_statements(n.then, out)
    elif isinstance(n, A.ForLoop):
        linear_statements(n.body, out)
    return out


class Misaligned(Exception):
    pass


def align(b, a, out):
    """pair every statement of the tree before a pass with the statements that replace it"""
    if isinstance(b, A.StatementWrapper):
        if isinstance(a, A.StatementWrapper):
            out.append((b.statement, [a.statement]))
        elif isinstance(a, A.Block) and a.children and all(isinstance(c, A.StatementWrapper) for c in a.children):
            out.append((b.statement, [c.statement for c in a.children]))
        else:
            raise Misaligned("statement %s replaced by %s" % (b.statement.id, type(a).__name__))
        return out
    if type(a) is not type(b):
        raise Misaligned("%s became %s" % (type(b).__name__, type(a).__name__))
    if isinstance(b, A.Block):
        if len(a.children) != len(b.children):
            raise Misaligned("block length changed")
        for cb, ca in zip(b.children, a.children):
            align(cb, ca, out)
    elif isinstance(b, A.IfThenElse):
        if not (a.condition == b.condition):
            raise Misaligned("if-condition changed")
        align(b.then, a.then, out)
        align(b.else_, a.else_, out)
    elif isinstance(b, A.IfThen):
        if not (a.condition == b.condition):
            raise Misaligned("if-condition changed")
        align(b.then, a.then, out)
    elif isinstance(b, A.ForLoop):
        if a.loop_var_name != b.loop_var_name or not (a.lbound == b.lbound) or not (a.ubound == b.ubound):
            raise Misaligned("loop header changed")
        align(b.body, a.body, out)
    elif isinstance(b, A.NullASTNode):
        pass
    else:
        raise Misaligned("unknown node")
    return out


def conjuncts(c):
    if c is True:
        return []
    if isinstance(c, P.LogicalAnd):
        r = []
        for ch in c.children:
            r.extend(conjuncts(ch))
        return r
    return [c]


# ---------------------------------------------------------------- independent executor

class UnsetRead(Exception):
    pass


def fval(name, args, kw):
    h = {"<func>f": 1, "<func>g": 2}.get(name, 3)
    for i, a in enumerate(list(args) + [kw[k] for k in sorted(kw)]):
        for j, x in enumerate(a if isinstance(a, tuple) else (a,)):
            h = (h * 7 + int(x) * (i + 2) + j) % 1009
    return h % 4


class Exec:
    def __init__(self, env, eager=False):
        self.env = dict(env)
        self.log = []
        self.eager = eager

    def call(self, name, args, kw):
        norm = tuple(tuple(int(x) for x in a) if isinstance(a, tuple) else int(a) for a in args)
        nkw = tuple(sorted((k, tuple(int(x) for x in v) if isinstance(v, tuple) else int(v)) for k, v in kw.items()))
        self.log.append((name, norm, nkw))
        return fval(name, args, kw)

    def ev(self, e):
        if isinstance(e, P.Variable):
            if e.name not in self.env:
                raise UnsetRead(e.name)
            return self.env[e.name]
        if isinstance(e, (bool, int)):
            return e
        if isinstance(e, P.Sum):
            r = 0
            for c in e.children:
                r = r + self.ev(c)
            return r
        if isinstance(e, P.Product):
            r = 1
            for c in e.children:
                r = r * self.ev(c)
            return r
        if isinstance(e, P.Comparison):
            l, r = self.ev(e.left), self.ev(e.right)
            return {"<": l < r, "<=": l <= r, ">": l > r, ">=": l >= r, "==": l == r, "!=": l != r}[e.operator]
        if isinstance(e, P.LogicalAnd):
            for c in e.children:
                if not self.ev(c):
                    return False
            return True
        if isinstance(e, P.LogicalOr):
            for c in e.children:
                if self.ev(c):
                    return True
            return False
        if isinstance(e, P.LogicalNot):
            return not self.ev(e.child)
        if isinstance(e, P.If):
            c = self.ev(e.condition)
            if self.eager:
                t, f = self.ev(e.then), self.ev(e.else_)
                return t if c else f
            return self.ev(e.then) if c else self.ev(e.else_)
        if isinstance(e, P.CallWithKwargs):
            args = tuple(self.ev(a) for a in e.parameters)
            kw = {k: self.ev(v) for k, v in e.kw_parameters.items()}
            return self.call(e.function.name, args, kw)
        if isinstance(e, P.Call):
            args = tuple(self.ev(a) for a in e.parameters)
            return self.call(e.function.name, args, {})
        if isinstance(e, P.Subscript):
            agg = self.ev(e.aggregate)
            return agg[self.index(e.index) % len(agg)]
        raise TypeError("executor: unexpected node %r" % type(e).__name__)

    def index(self, idx):
        if isinstance(idx, tuple):
            if len(idx) != 1:
                raise TypeError("index of length %d" % len(idx))
            idx = idx[0]
        v = self.ev(idx)
        if isinstance(v, tuple):
            raise TypeError("array used as index")
        return int(v)

    def loop(self, ident, lo, hi, body):
        lo, hi = int(self.ev(lo)), int(self.ev(hi))
        had, old = ident in self.env, self.env.get(ident)
        for k in range(lo, hi):
            self.env[ident] = k
            body()
        if had:
            self.env[ident] = old
        else:
            self.env.pop(ident, None)

    def stmt(self, st):
        if st.condition is not True and not self.ev(st.condition):
            return
        if isinstance(st, lang.Assign):
            def once():
                v = self.ev(st.rhs)
                if st.assignee_subscript:
                    arr = self.env.get(st.assignee)
                    if not isinstance(arr, tuple):
                        raise TypeError("subscripted assignment to non-array %s" % st.assignee)
                    k = self.index(tuple(st.assignee_subscript)) % len(arr)
                    if isinstance(v, tuple):
                        raise TypeError("array stored into an array slot")
                    self.env[st.assignee] = arr[:k] + (v,) + arr[k + 1:]
                else:
                    self.env[st.assignee] = v

            def nest(loops):
                if not loops:
                    once()
                else:
                    ident, lo, hi = loops[0]
                    self.loop(ident, lo, hi, lambda: nest(loops[1:]))
            nest(list(st.loops))
        elif isinstance(st, lang.AssignFunctionCall):
            args = tuple(self.ev(a) for a in st.parameters)
            kw = {k: self.ev(v) for k, v in st.kw_parameters.items()}
            r = self.call(st.function_id, args, kw)
            if len(st.assignees) == 1:
                self.env[st.assignees[0]] = r
            elif len(st.assignees) > 1:
                raise TypeError("multi-assignee call not modelled")
        else:
            raise TypeError("executor: unexpected statement %r" % type(st).__name__)

    def node(self, n):
        if isinstance(n, A.StatementWrapper):
            self.stmt(n.statement)
        elif isinstance(n, A.Block):
            for c in n.children:
                self.node(c)
        elif isinstance(n, A.IfThenElse):
            self.node(n.then if self.ev(n.condition) else n.else_)
        elif isinstance(n, A.IfThen):
            if self.ev(n.condition):
                self.node(n.then)
        elif isinstance(n, A.ForLoop):
            self.loop(n.loop_var_name, n.lbound, n.ubound, lambda: self.node(n.body))
        elif isinstance(n, A.NullASTNode):
            pass
        else:
            raise TypeError("executor: unexpected ast node %r" % type(n).__name__)


def run(ast, env, eager=False):
    ex = Exec(env, eager)
    ex.node(ast)
    return ex.env, ex.log


def valuations(prog, occ):
    rng = random.Random(prog.get("valseed", 0))
    names = sorted(n for n, roles in occ.items() if roles != {"loop_ident"})
    out = []
    for _ in range(prog.get("nvals", 4)):
        env = {}
        for n in names:
            if n in ARRAYS:
                env[n] = tuple(rng.randint(0, 3) for _ in range(ARRLEN))
            elif n.startswith("<cond>"):
                env[n] = bool(rng.randint(0, 1))
            else:
                env[n] = rng.randint(0, 3)
        out.append(env)
    return out


# ---------------------------------------------------------------- the oracle

def apply_passes(ast, names, seed_all_names=False):
    """returns (stages, raised); stages = [(pass, ast_in, ast_out)]"""
    stages = []
    cur = ast
    for p in names:
        fn = getattr(T, PASS_OF[p])
        orig = T.get_var_name_generator
        try:
            if seed_all_names:
                allnames = set(occurrences(cur))
                T.get_var_name_generator = (
                    lambda statements, _o=orig, _n=allnames:
                    UniqueNameGenerator(set(_n) | {v for s in statements
                                                   for v in (s.get_read_variables() | s.get_written_variables())}))
            try:
                new = fn(cur)
            except Exception as ex:             # the pass must turn any structured phase into a phase
                return stages, (p, type(ex).__name__, str(ex)[:300])
        finally:
            T.get_var_name_generator = orig
        stages.append((p, cur, new))
        cur = new
    return stages, None


def structural(stages):
    """structural clauses, stage by stage; returns list of (clause, detail, data)"""
    fails = []
    introduced_total = 0
    structural.guarded = 0
    structural.vanished = set()
    original_names = set(occurrences(stages[0][1])) if stages else set()
    for p, before, after in stages:
        occ = occurrences(before)
        names_in = set(occ)
        ids_in = [s.id for s in linear_statements(before)]
        try:
            pairs = align(before, after, [])
        except Misaligned:
            continue
        introduced_vars = set()
        for orig, derived in pairs:
            intro, final = derived[:-1], derived[-1]
            introduced_total += len(intro)
            base = conjuncts(orig.condition)
            if base and intro:
                structural.guarded += 1
            for d in derived:
                have = conjuncts(d.condition)
                missing = [c for c in base if not any(c == h for h in have)]
                if missing:
                    fails.append(("guard-carried", "pass %s: statement %s derived from guarded %s lacks guard %s"
                                  % (p, d.id, orig.id, missing[0]), {}))
            for d in intro:
                for v in sorted(stmt_writes(d)):
                    introduced_vars.add(v)
                    if v in original_names and v not in names_in:
                        structural.vanished.add(v)
                    if v in names_in:
                        fails.append(("fresh-variable",
                                      "pass %s introduces variable %r (statement %s) but the phase already uses that "
                                      "name as %s" % (p, v, d.id, sorted(occ[v])),
                                      {"captured": v, "roles": sorted(occ[v])}))
                if d.id in ids_in:
                    fails.append(("fresh-id", "pass %s introduces statement id %r already present" % (p, d.id), {}))
        ids_out = [s.id for s in linear_statements(after)]
        dup = sorted(i for i, c in Counter(ids_out).items() if c > 1)
        if dup:
            fails.append(("fresh-id", "pass %s: duplicate statement ids %s after the pass" % (p, dup), {}))
        # definition before use in top-to-bottom order
        lin = linear_statements(after)
        for v in sorted(introduced_vars - names_in):
            first_w = next((i for i, s in enumerate(lin) if v in stmt_writes(s)), None)
            first_r = next((i for i, s in enumerate(lin) if v in stmt_reads(s)), None)
            if first_r is not None and (first_w is None or first_r <= first_w):
                fails.append(("set-before-read",
                              "pass %s: introduced variable %r is read by statement %s before the statement that sets "
                              "it (%s)" % (p, v, lin[first_r].id, lin[first_w].id if first_w is not None else "none"),
                              {"var": v}))
    return fails, introduced_total


def semantic(prog, before, after, vanished=frozenset()):
    """returns (ok, detail, info) ; ok None = out of domain.
    info["explained"]: every difference consists only of (a) additional calls that the original performs when
    conditional expressions evaluate both branches and/or (b) changed final values of variables in `vanished`
    (names of the original phase that no longer occurred in the statements when a later pass generated them)"""
    occ = occurrences(before)
    loop_ids = {n for n, r in occ.items() if "loop_ident" in r}
    observed = sorted(set(occ) - loop_ids)
    explained, uses_hoist, uses_vanished = True, False, False
    only_lost_calls, lost_any = True, False
    bad = None
    seq_differs = False
    for env in valuations(prog, occ):
        try:
            e0, l0 = run(before, env)
        except Exception:
            return None, "original phase does not run under the executor", {}
        try:
            e1, l1 = run(after, env)
        except UnsetRead as ex:
            d = "after the pass, variable %r is read before it is set (valuation %s)" % (str(ex), env)
            return False, d, {"hoist_only": False, "explained": False, "unset": str(ex)}
        except Exception as ex:
            return False, "after the pass the phase fails to run: %s: %s" % (type(ex).__name__, ex), \
                {"hoist_only": False, "explained": False}
        diff_names = [n for n in observed if e0.get(n) != e1.get(n) or (n in e0) != (n in e1)]
        c0, c1 = Counter(l0), Counter(l1)
        if l0 != l1:
            seq_differs = True
        if not diff_names and c0 == c1:
            continue
        extra = c1 - c0
        extra_ok = True
        if extra:
            try:
                _, le = run(before, env, eager=True)
                extra_ok = not (extra - (Counter(le) - c0))
            except Exception:
                extra_ok = False
        expl = not (c0 - c1) and set(diff_names) <= set(vanished) and extra_ok
        if expl:
            uses_hoist = uses_hoist or bool(extra)
            uses_vanished = uses_vanished or bool(diff_names)
        else:
            explained = False
            if not (bool(c0 - c1) and set(diff_names) <= set(vanished) and extra_ok):
                only_lost_calls = False
            lost_any = True
        if bad is None or not expl:
            diffs = [(n, e0.get(n), e1.get(n)) for n in diff_names]
            bad = "valuation %s: values (name, before, after) %s; calls only before %s; calls only after %s" % (
                env, diffs[:4], sorted((c0 - c1).elements())[:4], sorted(extra.elements())[:4])
            if not expl:
                break
    if bad is None:
        return True, "", {"seq_differs": seq_differs}
    return False, bad, {"explained": explained, "uses_hoist": explained and uses_hoist,
                        "uses_vanished": explained and uses_vanished,
                        "hoist_only": explained and uses_hoist and not uses_vanished,
                        "only_lost_calls": lost_any and only_lost_calls}


_MEMO = {}


def evaluate(prog, pipeline, seed_all_names=False):
    """memoised per program within one `consider`/`replay` (fingerprints re-ask the same question)"""
    key = (json.dumps(prog, sort_keys=True), pipeline, seed_all_names)
    if key not in _MEMO:
        _MEMO[key] = _evaluate(prog, pipeline, seed_all_names)
    return _MEMO[key]


def _evaluate(prog, pipeline, seed_all_names=False):
    """list of failures [(clause, detail, data)], plus info"""
    ast = build_ast(prog)
    stages, raised = apply_passes(ast, pipelines()[pipeline], seed_all_names)
    info = {"changed": False, "introduced": 0}
    fails = []
    if raised:
        fails.append(("pass-raises", "pass %s raises %s: %s" % raised, {"exc": raised[1], "msg": raised[2]}))
        return fails, info
    sf, intro = structural(stages)
    fails.extend(sf)
    info["introduced"] = intro
    info["guarded_rewritten"] = structural.guarded
    info["changed"] = intro > 0
    info["vanished"] = sorted(structural.vanished)
    ok, detail, sinfo = semantic(prog, ast, stages[-1][2], frozenset(structural.vanished))
    info.update(sinfo)
    if ok is None:
        info["out_of_domain"] = True
        return [], info
    if ok is False:
        fails.append(("same-values-and-calls", detail, sinfo))
    return fails, info


def check(inp):
    prog = inp["program"]
    pls = [inp["pipeline"]] if inp.get("pipeline") else list(pipelines())
    out = []
    for pl in pls:
        fails, info = evaluate(prog, pl)
        for clause, detail, data in fails:
            if inp.get("clause") and clause != inp["clause"]:
                continue
            out.append((pl, clause, detail, data))
    return out


def replay(inp):
    _MEMO.clear()
    try:
        res = check(inp)
    except Exception as ex:
        return {"error": "%s: %s" % (type(ex).__name__, ex)}
    if res:
        pl, clause, detail, _ = res[0]
        return {"fails": True, "detail": "[%s/%s] %s" % (pl, clause, detail)}
    return {"fails": False, "detail": None}


# ---------------------------------------------------------------- fingerprints of known findings

def _walk_json(e, f, inside_call=False, inside_branch=False):
    f(e, inside_call, inside_branch)
    t = e[0]
    if t in ("+", "*", "<", "and"):
        _walk_json(e[1], f, inside_call, inside_branch)
        _walk_json(e[2], f, inside_call, inside_branch)
    elif t in ("not",):
        _walk_json(e[1], f, inside_call, inside_branch)
    elif t == "sub":
        _walk_json(e[2], f, inside_call, inside_branch)
    elif t == "call":
        for a in e[2]:
            _walk_json(a, f, True, inside_branch)
        for a in (e[3] if len(e) > 3 and e[3] else {}).values():
            _walk_json(a, f, True, inside_branch)
    elif t == "if":
        _walk_json(e[1], f, inside_call, inside_branch)
        _walk_json(e[2], f, inside_call, True)
        _walk_json(e[3], f, inside_call, True)


def _stmt_exprs(s):
    if s["k"] == "assign":
        out = [s["rhs"]]
        if s.get("sub"):
            out.append(s["sub"])
        for l in s.get("loops") or []:
            out += [l[1], l[2]]
        return out
    return []


def has_nested_call_in_assign(prog):
    hit = []
    for s in prog["stmts"]:
        for e in _stmt_exprs(s):
            _walk_json(e, lambda x, ic, ib: hit.append(1) if (x[0] == "call" and ic) else None)
    return bool(hit)


def has_call_in_branch(prog):
    hit = []
    for s in prog["stmts"]:
        es = _stmt_exprs(s) if s["k"] == "assign" else list(s["args"]) + list((s.get("kw") or {}).values())
        for e in es:
            _walk_json(e, lambda x, ic, ib: hit.append(1) if (x[0] == "call" and ib) else None)
    return bool(hit)


def fp_d10(inp):
    """isolate_function_calls applied alone raises TypeError (missing positional argument of map_call*) on an
    Assign that has a call nested inside a call argument"""
    if inp.get("pipeline") != "calls" or inp.get("clause") != "pass-raises":
        return False
    if not has_nested_call_in_assign(inp["program"]):
        return False
    for pl, clause, detail, data in check(inp):
        if data.get("exc") == "TypeError" and "map_call" in data.get("msg", "") \
                and "missing 1 required positional argument" in data.get("msg", ""):
            return True
    return False


def _capture_roles(inp, allowed):
    """every fresh-variable failure of this input captures a name whose only roles are within `allowed`"""
    res = [r for r in check(dict(inp, clause="fresh-variable"))]
    if not res:
        return False
    return all(set(data["roles"]) <= allowed for _, _, _, data in res)


def _capture_explains(inp, allowed):
    """clause-specific: the failure of this input is a capture of a name with roles in `allowed`, or a
    consequence of it that disappears when the name generator is seeded with every name of the phase"""
    if inp.get("clause") == "fresh-variable":
        return _capture_roles(inp, allowed)
    if inp.get("clause") in ("same-values-and-calls", "set-before-read") and inp.get("pipeline"):
        if not _capture_roles(inp, allowed):
            return False
        fails, _ = evaluate(inp["program"], inp["pipeline"], seed_all_names=True)
        for clause, detail, data in fails:
            if clause != inp["clause"]:
                continue
            if clause == "same-values-and-calls" and data.get("explained"):
                continue                   # the residue is the D20 pattern and/or a regenerated vanished name
            name = data.get("var") if clause == "set-before-read" else data.get("unset")
            if (name or "").startswith("<cond>ifthenelse_cond") and has_if_in_branch(inp["program"]):
                continue                   # the residue is the nested-conditional-expression pattern
            return False
        return True
    return False


def fp_d9(inp):
    """generated name captures a user variable that occurs only as a loop bound / left-hand subscript (so it is in
    no statement's declared read or write set); value differences count only if they vanish once the generator is
    seeded with all names"""
    return _capture_explains(inp, {"loop_bound", "lhs_sub"})


def fp_capture_guard_only(inp):
    """same mechanism as D9, but the captured user name occurs only in guards that create_ast_from_phase moved
    into IfThen nodes (plus possibly loop bounds / lhs subscripts)"""
    return (not fp_d9(inp)) and _capture_explains(inp, {"loop_bound", "lhs_sub", "guard_node"})


def fp_capture_loop_identifier(inp):
    """same mechanism as D9, the captured name is (also) a loop identifier"""
    return (not fp_d9(inp)) and (not fp_capture_guard_only(inp)) and \
        _capture_explains(inp, {"loop_bound", "lhs_sub", "guard_node", "loop_ident"})


def fp_d20(inp):
    """values agree, the only difference is additional calls, each of which is a call the original performs
    only when conditional expressions evaluate both branches (call hoisted out of an untaken branch)"""
    if inp.get("clause") != "same-values-and-calls" or inp.get("pipeline") not in ("args", "calls", "fortran"):
        return False
    if not has_call_in_branch(inp["program"]):
        return False
    res = check(inp)
    return bool(res) and all(data.get("hoist_only") for _, _, _, data in res)


def has_if_in_branch(prog):
    hit = []
    for s in prog["stmts"]:
        es = _stmt_exprs(s) if s["k"] == "assign" else list(s["args"]) + list((s.get("kw") or {}).values())
        for e in es:
            _walk_json(e, lambda x, ic, ib: hit.append(1) if (x[0] == "if" and ib) else None)
    return bool(hit)


def fp_nested_if(inp):
    """a conditional expression nested in a branch of another one: expand_IfThenElse emits the inner statements
    (guarded by the outer flag) before the assignment of the outer flag, so the generated flag is read unset"""
    if inp.get("pipeline") not in ("ite", "fortran") or not has_if_in_branch(inp["program"]):
        return False
    if inp.get("clause") not in ("set-before-read", "same-values-and-calls"):
        return False
    res = check(inp)
    if not res:
        return False
    for _, clause, _, data in res:
        name = data.get("var") if clause == "set-before-read" else data.get("unset")
        if not (name or "").startswith("<cond>ifthenelse_cond"):
            return False
    return True


def has_call_times_zero(prog):
    """a product with a constant factor 0 and a call in another factor (flatten() rewrites it to 0)"""
    hit = []

    def factors(e, acc):
        if e[0] == "*":
            factors(e[1], acc)
            factors(e[2], acc)
        else:
            acc.append(e)
        return acc

    def contains_call(e):
        found = []
        _walk_json(e, lambda x, ic, ib: found.append(1) if x[0] == "call" else None)
        return bool(found)

    def const(e):
        if e[0] == "c":
            return e[1]
        if e[0] in ("+", "*"):
            a, b = const(e[1]), const(e[2])
            if e[0] == "*" and (a == 0 or b == 0) and (a is not None or b is not None):
                return 0
            if a is None or b is None:
                return None
            return a + b if e[0] == "+" else a * b
        return None

    def visit(x, ic, ib):
        if x[0] == "*":
            fs = factors(x, [])
            if any(const(f) == 0 for f in fs) and any(contains_call(f) for f in fs):
                hit.append(1)
    for s in prog["stmts"]:
        es = _stmt_exprs(s) if s["k"] == "assign" else list(s["args"]) + list((s.get("kw") or {}).values())
        for e in es:
            _walk_json(e, visit)
    return bool(hit)


def fp_zero_product(inp):
    """a statement-level call has an argument f(..)*0: the isolating pass moves it into a new Assign, whose
    constructor flatten()s it to 0, so the call f(..) is no longer made; nothing else differs (apart from calls
    hoisted out of untaken branches and regenerated vanished names, which have their own fingerprints)"""
    if inp.get("clause") != "same-values-and-calls" or inp.get("pipeline") not in ("args", "fortran"):
        return False
    if not has_call_times_zero(inp["program"]):
        return False
    res = check(inp)
    return bool(res) and all(data.get("only_lost_calls") for _, _, _, data in res)


def fp_vanished(inp):
    """a user variable that no longer occurs in any statement after an earlier pass (its only use was simplified
    away when the statement was rebuilt, e.g. 0*tmp_0 -> 0) is generated again by a later pass; only the final
    value of that variable differs (plus possibly calls hoisted out of untaken branches)"""
    if inp.get("clause") != "same-values-and-calls" or inp.get("pipeline") != "fortran":
        return False
    res = check(inp)
    return bool(res) and all(data.get("explained") and data.get("uses_vanished") for _, _, _, data in res)


FINGERPRINTS = {
    "call_times_zero_flattened_away": fp_zero_product,
    "vanished_name_generated_by_later_pass": fp_vanished,
    "nested_if_inner_statements_before_outer_flag": fp_nested_if,
    "D9_capture_loop_bound_or_lhs_subscript": fp_d9,
    "D10_isolate_calls_nested_call_typeerror": fp_d10,
    "D20_call_hoisted_from_untaken_branch": fp_d20,
    "capture_guard_only_name": fp_capture_guard_only,
    "capture_loop_identifier": fp_capture_loop_identifier,
}


# ---------------------------------------------------------------- input generation

def V(n):
    return ["v", n]


def shapes(depth):
    """expression templates with leaf holes 'L' (structure only)"""
    cur = ["L"]
    for _ in range(depth):
        nxt = list(cur)
        for s in cur:
            nxt.append(["+", s, "L"])
            nxt.append(["call", "f", [s]])
            nxt.append(["call", "g", [s, "L"]])
        for c in (["<", "L", ["c", 2]], ["<", ["call", "f", ["L"]], ["c", 2]]):
            for t in cur:
                for e in cur:
                    nxt.append(["if", c, t, e])
        seen, ded = set(), []
        for s in nxt:
            k = json.dumps(s)
            if k not in seen:
                seen.add(k)
                ded.append(s)
        cur = ded
    return cur


def fill(tpl, leaves, pos):
    if tpl == "L":
        leaf = leaves[pos[0] % len(leaves)]
        pos[0] += 1
        return leaf
    t = tpl[0]
    if t in ("v", "c"):
        return tpl
    if t == "call":
        return ["call", tpl[1], [fill(a, leaves, pos) for a in tpl[2]], {}]
    return [t] + [fill(a, leaves, pos) for a in tpl[1:]]


LEAFSETS = [
    [V("x"), V("y")],
    [V("y"), V("tmp")],
    [V("tmp_0"), V("ifthenelse_result"), V("y")],
    [V("<state>s"), V("temp"), ["sub", "a", V("y")]],
]


def form(k, rhs):
    """statement forms around a right-hand side"""
    if k == 0:
        return [{"id": "s0", "k": "assign", "lhs": "x", "sub": None, "rhs": rhs, "cond": None, "loops": []}]
    if k == 1:      # guarded by a flag named like a generated one, then a second statement under the same flag
        c = V("<cond>ifthenelse_cond")
        return [{"id": "tmp", "k": "assign", "lhs": "x", "sub": None, "rhs": rhs, "cond": c, "loops": []},
                {"id": "temp", "k": "assign", "lhs": "y", "sub": None, "rhs": ["+", V("x"), ["c", 1]], "cond": c,
                 "loops": []}]
    if k == 2:      # left-hand subscript is a user variable named tmp
        return [{"id": "s0", "k": "assign", "lhs": "a", "sub": V("tmp"), "rhs": rhs, "cond": None, "loops": []}]
    if k == 3:      # loop whose bound is a user variable named like a temporary
        return [{"id": "ifthenelse_then", "k": "assign", "lhs": "a", "sub": V("i"), "rhs": ["+", rhs, V("i")],
                 "cond": None, "loops": [["i", ["c", 0], V("temp_x")]]},
                {"id": "s1", "k": "assign", "lhs": "x", "sub": None, "rhs": ["+", V("x"), V("tmp")], "cond": None,
                 "loops": [["i", ["c", 1], V("tmp")]]}]
    if k == 4:      # statement-level call, self-dependent
        return [{"id": "s0", "k": "call", "lhs": ["x"], "fn": "f", "args": [rhs], "kw": {}, "cond": None}]
    if k == 5:      # guard is a comparison; later statement reads the result
        return [{"id": "s0", "k": "assign", "lhs": "x", "sub": None, "rhs": rhs, "cond": ["<", V("y"), ["c", 2]],
                 "loops": []},
                {"id": "s1", "k": "assign", "lhs": "y", "sub": None, "rhs": ["*", V("x"), V("y")], "cond": None,
                 "loops": []}]
    raise ValueError(k)


NFORMS = 6
SCALARS = ["x", "y", "tmp", "tmp_0", "temp", "temp_x", "ifthenelse_result", "<cond>ifthenelse_cond", "<state>s", "n"]
BOUNDS = ["tmp", "tmp_0", "temp_x", "n", "ifthenelse_result", "temp"]
IDS = ["tmp", "temp", "ifthenelse_cond", "ifthenelse_then", "ifthenelse_else", "tmp_0", "s0", "s1", "s2", "s3"]


def rand_expr(rng, d, leaves):
    if d == 0 or rng.random() < 0.25:
        r = rng.random()
        if r < 0.7:
            return V(rng.choice(leaves))
        if r < 0.85:
            return ["c", rng.randint(0, 2)]
        return ["sub", rng.choice(ARRAYS), V(rng.choice(leaves))]
    op = rng.choice(["+", "+", "*", "<", "f", "f", "g", "gk", "if", "if"])
    if op in ("+", "*", "<"):
        return [op, rand_expr(rng, d - 1, leaves), rand_expr(rng, d - 1, leaves)]
    if op == "f":
        return ["call", "f", [rand_expr(rng, d - 1, leaves)], {}]
    if op == "g":
        return ["call", "g", [rand_expr(rng, d - 1, leaves), rand_expr(rng, d - 1, leaves)], {}]
    if op == "gk":
        return ["call", "g", [rand_expr(rng, d - 1, leaves)], {"k": rand_expr(rng, d - 1, leaves)}]
    c = V("<cond>ifthenelse_cond") if rng.random() < 0.2 else \
        ["<", rand_expr(rng, d - 1, leaves), rand_expr(rng, d - 1, leaves)]
    return ["if", c, rand_expr(rng, d - 1, leaves), rand_expr(rng, d - 1, leaves)]


def rand_program(rng, depth=3):
    tmp_is_loop_ident = rng.random() < 0.1
    scal = [n for n in SCALARS if not (tmp_is_loop_ident and n == "tmp")]
    n = rng.randint(1, 4)
    ids = rng.sample(IDS, n)
    stmts = []
    for i in range(n):
        leaves = rng.sample(scal, rng.randint(2, 4))
        cond = None
        r = rng.random()
        if r < 0.15:
            cond = V(rng.choice(["<cond>ifthenelse_cond", "<cond>c"]))
        elif r < 0.25:
            cond = ["<", V(rng.choice(scal)), ["c", 2]]
        elif r < 0.3:
            cond = ["not", V("<cond>ifthenelse_cond")]
        if rng.random() < 0.25:
            lhs = rng.choice(scal)
            args = [rand_expr(rng, rng.randint(0, depth - 1), leaves + [lhs])]
            fn = "f"
            if rng.random() < 0.4:
                fn = "g"
                args.append(rand_expr(rng, rng.randint(0, depth - 1), leaves))
            kw = {"k": rand_expr(rng, 1, leaves)} if rng.random() < 0.2 else {}
            stmts.append({"id": ids[i], "k": "call", "lhs": [lhs], "fn": fn, "args": args, "kw": kw, "cond": cond})
            continue
        loops = []
        if rng.random() < 0.3:
            ident = "tmp" if tmp_is_loop_ident else "i"
            lo = ["c", rng.randint(0, 1)]
            hi = V(rng.choice([b for b in BOUNDS if b in scal])) if rng.random() < 0.7 else ["c", rng.randint(1, 3)]
            loops = [[ident, lo, hi]]
            leaves = leaves + [ident]
        r = rng.random()
        sub = None
        if r < 0.3:
            lhs = rng.choice(ARRAYS)
            sub = V(rng.choice(leaves)) if rng.random() < 0.8 else ["+", V(rng.choice(leaves)), ["c", 1]]
        else:
            lhs = rng.choice(scal)
            if rng.random() < 0.4:
                leaves = leaves + [lhs, lhs]
        rhs = rand_expr(rng, depth, leaves)
        stmts.append({"id": ids[i], "k": "assign", "lhs": lhs, "sub": sub, "rhs": rhs, "cond": cond, "loops": loops})
    return {"mode": "flat" if rng.random() < 0.3 else "ast", "stmts": stmts, "valseed": rng.randint(0, 10 ** 6),
            "nvals": 4}


# ---------------------------------------------------------------- driver

def bounded(payload):
    import time
    budget = payload.get("budget", {}) or {}
    tier = payload.get("tier", "quick")
    seed = payload.get("seed", 0)
    rng = random.Random(seed)
    depth = budget.get("shape_depth", 2)
    nrand = budget.get("programs", 350 if tier == "quick" else 12000)
    stride = budget.get("shape_stride", 5 if tier == "quick" else 1)
    deadline = time.time() + budget.get("wall_s", 15 if tier == "quick" else 270)
    active = []
    for e in payload.get("known", []) or []:
        fp = FINGERPRINTS.get(e.get("fingerprint"))
        if fp:
            active.append((e.get("id"), e.get("fingerprint"), fp))
    pls = pipelines()
    evals = 0
    distinct = set()
    failures, samples = [], []
    per_class = Counter()
    parts = Counter()
    exhaustive_done = True

    def consider(prog):
        nonlocal evals
        key = json.dumps(prog, sort_keys=True)
        nontrivial = False
        _MEMO.clear()
        for pl in pls:
            evals += 1
            try:
                fails, info = evaluate(prog, pl)
            except Exception as ex:          # a bug of this oracle or an input it cannot build: never a finding
                parts["oracle_skipped_" + type(ex).__name__] += 1
                continue
            if info.get("out_of_domain"):
                parts["out_of_domain"] += 1
                continue
            if info.get("changed"):
                nontrivial = True
            parts["guarded_statements_rewritten"] += info.get("guarded_rewritten", 0)
            parts["statements_introduced"] += info.get("introduced", 0)
            if info.get("seq_differs"):
                parts["call_order_changed_but_same_multiset"] += 1
            for clause, detail, data in fails:
                parts["failing_%s_%s" % (pl, clause)] += 1
                inp = {"program": prog, "pipeline": pl, "clause": clause}
                matched = [n for n, f in sorted(FINGERPRINTS.items()) if _safe(f, inp)]
                for m in matched:
                    parts["fingerprint_" + m] += 1
                if not matched:
                    parts["no_fingerprint"] += 1
                sup = [kid for kid, name, _ in active if name in matched]
                if sup:
                    parts["suppressed_known_" + str(sup[0])] += 1
                    continue
                cls = (clause, tuple(matched))
                per_class[cls] += 1
                if per_class[cls] <= 2:
                    failures.append({"oracle": clause, "input": inp, "detail": "[%s] %s" % (pl, detail),
                                     "matches_fingerprints": matched})
        if nontrivial:
            distinct.add(key)

    # 0. self-dependent updates of tagged names next to user variables spelled like the sanitised temporaries
    #    (temp_<name with < > replaced by _>): the generated name must still be new
    for tagged, look in (("<state>s", "temp__state_s"), ("<p>b", "temp__p_b"), ("<cond>c", "temp__cond_c"),
                         ("x", "temp_x"), ("<state>s", "temp__state_s_0")):
        for mode in ("flat", "ast"):
            for cond in (None, ["<", V("y"), ["c", 2]]):
                consider({"mode": mode, "valseed": 5, "nvals": 4, "stmts": [
                    {"id": "s0", "k": "assign", "lhs": tagged, "sub": None,
                     "rhs": ["+", V(tagged), ["*", V(look), ["c", 2]]], "cond": cond, "loops": []},
                    {"id": "temp", "k": "assign", "lhs": "x2", "sub": None, "rhs": ["+", V(look), V(tagged)],
                     "cond": None, "loops": []}]})
                parts["lookalike_self_dependency_programs"] += 1
    # 0b. calls with several keyword arguments written in non-alphabetical order (values must stay with their names)
    for kws in ({"b": ["+", V("y"), ["c", 1]], "a": ["*", V("x"), ["c", 2]]},
                {"scale": V("y"), "offset": V("x")},
                {"c": ["call", "g", [V("y"), ["c", 1]], {}], "a": V("x"), "b": ["+", V("x"), V("y")]}):
        for mode in ("flat", "ast"):
            consider({"mode": mode, "valseed": 7, "nvals": 4, "stmts": [
                {"id": "s0", "k": "assign", "lhs": "z", "sub": None, "rhs": ["call", "f", [V("x")], dict(kws)], "cond": None, "loops": []},
                {"id": "s1", "k": "call", "lhs": ["w"], "fn": "g", "args": [V("z")], "kw": dict(kws), "cond": ["<", V("y"), ["c", 2]]}]})
            parts["multi_keyword_call_programs"] += 1
    # 0c. a variable spelled like the function its own right-hand side calls (functions and variables are two name spaces:
    #     the statement does not read the variable, and no pass may touch the function symbol)
    for fn in ("f", "g"):
        for mode in ("flat", "ast"):
            for cond in (None, ["<", V("y"), ["c", 2]]):
                for rhs in (["+", ["c", 1], ["call", fn, [V("x")], {}]],
                            ["call", fn, [["+", V("x"), ["c", 1]]], {"k": V("y")}],
                            ["*", ["call", fn, [["call", fn, [V("y")], {}]], {}], V("x")]):
                    consider({"mode": mode, "valseed": 11, "nvals": 4, "stmts": [
                        {"id": "s0", "k": "assign", "lhs": "<func>" + fn, "sub": None, "rhs": rhs, "cond": cond, "loops": []},
                        {"id": "s1", "k": "assign", "lhs": "w", "sub": None, "rhs": ["+", V("<func>" + fn), V("x")],
                         "cond": None, "loops": []}]})
                    parts["variable_named_like_the_called_function_programs"] += 1
    # 1. exhaustive family: expression shapes up to `depth` x statement forms x colliding leaf names
    tpls = shapes(depth)
    parts["shape_templates"] = len(tpls)
    k = 0
    for ti, tpl in enumerate(tpls):
        for fk in range(NFORMS):
            for li, leaves in enumerate(LEAFSETS):
                k += 1
                if (k + seed) % stride:
                    continue
                if time.time() > deadline:
                    exhaustive_done = False
                    break
                rhs = fill(tpl, leaves, [0])
                prog = {"mode": "flat" if (ti + fk + li) % 4 == 3 else "ast", "stmts": form(fk, rhs),
                        "valseed": ti * 31 + fk * 7 + li, "nvals": 4}
                consider(prog)
                parts["family_programs"] += 1
                if len(samples) < 2 and ti > 20:
                    samples.append(prog)
    # 1b. (thorough) a slice of the depth-3 family
    s3 = budget.get("shape3_stride", 0 if tier == "quick" else 150)
    if s3:
        k = 0
        for ti, tpl in enumerate(shapes(3)):
            for fk in range(NFORMS):
                for li, leaves in enumerate(LEAFSETS):
                    k += 1
                    if (k + seed) % s3 or time.time() > deadline:
                        continue
                    prog = {"mode": "flat" if (ti + fk + li) % 4 == 3 else "ast",
                            "stmts": form(fk, fill(tpl, leaves, [0])), "valseed": ti * 31 + fk * 7 + li, "nvals": 4}
                    consider(prog)
                    parts["family_depth3_programs"] += 1
    # 2. seeded random tail, depth 3, 1-4 statements
    for _ in range(nrand):
        if time.time() > deadline:
            parts["random_tail_cut_by_wall_clock"] = 1
            break
        prog = rand_program(rng)
        consider(prog)
        parts["random_programs"] += 1
        if len(samples) < 4:
            samples.append(prog)
    known_hits = []
    for e in payload.get("known", []) or []:
        try:
            r = replay(e["native"])
        except Exception:
            r = {}
        if r.get("fails"):
            known_hits.append("%s: %s" % (e["id"], e["what"]))
    return {"evaluations": evals, "distinct_nontrivial": len(distinct),
            "rule": "20 self-dependent updates of tagged names beside user variables spelled like the sanitised "
                    "temporaries; family: %d expression templates (depth<=%d over +, f(.), g(.,.), If(L<2 | f(L)<2, ., .)) x %d "
                    "statement forms (plain, flag-guarded pair, lhs subscript `tmp`, loops bounded by `temp_x`/`tmp`, "
                    "statement-level call, comparison-guarded) x %d leaf-name sets (names colliding with generated "
                    "ones), every %d-th member; then seeded random programs (1-4 statements, expression depth 3, "
                    "guards, loops, calls with keywords); each program x 5 pipelines (each pass alone, Fortran order "
                    "%s) x 4 valuations. evaluation = one (program, pipeline); distinct non-trivial = distinct "
                    "programs in which some pipeline introduced at least one statement"
                    % (len(tpls), depth, NFORMS, len(LEAFSETS), stride, "/".join(pls["fortran"])),
            "bound": "<=4 statements, expression depth <=3, 12 variable names, values in 0..3, arrays of length 4, "
                     "2 logging functions",
            "samples": samples, "failures": sorted(failures, key=lambda f: bool(f["matches_fingerprints"]))[:20], "known_hits": known_hits,
            "parts": dict(parts), "exhaustive": False}


def _safe(f, inp):
    try:
        return bool(f(inp))
    except Exception:
        return False
