"""Shared spec vocabulary for dagrt.data kinds (C09, C14)."""
import z3
from pyvc.values import *  # noqa

Ident = z3.DeclareSort("Ident")

Kind = z3.Datatype("Kind")
Kind.declare("NoneK")
Kind.declare("Boolean")
Kind.declare("Integer")
Kind.declare("Scalar", ("s_real", z3.BoolSort()))
Kind.declare("Array", ("a_real", z3.BoolSort()))
Kind.declare("UserType", ("u_ident", Ident))
Kind = Kind.create()

Outcome = z3.Datatype("Outcome")
Outcome.declare("Ok", ("ok_kind", Kind))
Outcome.declare("Undefined")
Outcome = Outcome.create()


def _real(k):
    return z3.If(Kind.is_Scalar(k), Kind.s_real(k), Kind.a_real(k))


IDENT = TElem("Ident", Ident)

KIND = TElem(
    "Kind", Kind,
    fields={
        "is_real_valued": (_real, BOOL, lambda k: z3.Or(Kind.is_Scalar(k), Kind.is_Array(k))),
        "identifier": (Kind.u_ident, IDENT, lambda k: Kind.is_UserType(k)),
    },
    classes={
        "Boolean": Kind.is_Boolean,
        "Integer": Kind.is_Integer,
        "Scalar": Kind.is_Scalar,
        "Array": Kind.is_Array,
        "UserType": Kind.is_UserType,
        "SymbolKind": lambda k: z3.Not(Kind.is_NoneK(k)),
    },
    none_test=Kind.is_NoneK,
)


def kind_class(k):
    """type(kind) as a tag: two kinds have the same Python class iff the tags agree"""
    return z3.If(Kind.is_NoneK(k), 0, z3.If(Kind.is_Boolean(k), 1, z3.If(Kind.is_Integer(k), 2, z3.If(
        Kind.is_Scalar(k), 3, z3.If(Kind.is_Array(k), 4, 5)))))


def type_of_kind(ctx, it, args, kw):
    """type(x) for a kind value (compared with `is` / `==` only)"""
    v = ctx.deref(args[0])
    if isinstance(v, VElem) and v.ty is KIND:
        return VInt(kind_class(v.t))
    return VPy("<type>")


def _ctor(name, mk):
    def construct(ctx, it, args, kwargs):
        vals = list(args) + list(kwargs.values())
        return mk(ctx, it, [ctx.deref(v) for v in vals])
    return VClass(name, construct)


def _bool_arg(it, v):
    return it.truth(v)


KIND_CLASSES = {
    "Boolean": _ctor("Boolean", lambda c, it, a: KIND.wrap(Kind.Boolean)),
    "Integer": _ctor("Integer", lambda c, it, a: KIND.wrap(Kind.Integer)),
    "Scalar": _ctor("Scalar", lambda c, it, a: KIND.wrap(Kind.Scalar(_bool_arg(it, a[0])))),
    "Array": _ctor("Array", lambda c, it, a: KIND.wrap(Kind.Array(_bool_arg(it, a[0])))),
    "UserType": _ctor("UserType", lambda c, it, a: KIND.wrap(Kind.UserType(a[0].t))),
}
