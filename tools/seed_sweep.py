#!/usr/bin/env python3
"""tools/seed_sweep.py [PROP ...] — run every bounded stand-in under several seeds with the committed known
findings; any failure left is an alarm on the unchanged tree that must be understood."""
import json, os, subprocess, sys
from concurrent.futures import ThreadPoolExecutor
HERE = os.path.dirname(os.path.dirname(os.path.abspath(__file__)))
known = json.load(open(os.path.join(HERE, "known_findings.json")))["findings"]
props = sys.argv[1:] or sorted(f[:-3].upper() for f in os.listdir(os.path.join(HERE, "replay/oracles")) if f.startswith("c") and f.endswith(".py"))
seeds = [int(s) for s in os.environ.get("SEEDS", "0 1 2 3 7").split()]
def run(job):
    p, seed = job
    payload = {"tier": "quick", "seed": seed, "budget": {}, "known": [e for e in known if e["property"] == p and e.get("native")]}
    env = dict(os.environ, PYTHONPATH="/repo:" + HERE, PYTHONHASHSEED="0")
    r = subprocess.run(["/venv/bin/python", os.path.join(HERE, "replay/run.py"), p, "bounded"], input=json.dumps(payload),
                       capture_output=True, text=True, env=env, cwd=HERE)
    try:
        out = json.loads(r.stdout.strip().splitlines()[-1])
    except Exception:
        return p, seed, "ERROR " + r.stderr[-300:], []
    fs = out.get("failures", [])
    def fps(f):
        x = []
        for k in ("matching_fingerprints", "matches_fingerprints"):
            x += list(f.get(k) or [])
        for k in ("fingerprint", "matches_fingerprint"):
            if f.get(k): x.append(f[k])
        return x
    return p, seed, "%d failures" % len(fs), sorted({str(fps(f)) for f in fs})
with ThreadPoolExecutor(8) as ex:
    for p, seed, msg, cls in ex.map(run, [(p, s) for p in props for s in seeds]):
        print(p, "seed", seed, msg, cls if cls else "")
