"""_ConstantFindingMapper (dagrt/expression.py) — the classifier behind constant hoisting (C18).

Functions under contract (read from /repo/dagrt/expression.py on every run):
  _ConstantFindingMapper.__call__, .rec, .combine, .map_constant, .map_variable, .map_logical_not
plus the class-shape obligation that the class defines no other mapper method.

Method contract MC (every mapper method M(expr) of the finder, own or inherited):
  requires  node_stack = S ++ [expr]  and the table is sound (tbl[x] => x mentions no free variable)
  ensures   node_stack = S, the table is sound, tbl[expr] = result, result => expr mentions no free variable
A-COMBINE (pymbolic.mapper.CombineMapper, trusted): for a composite node the inherited map_* calls self.rec on every
direct subexpression (function, parameters, keyword values, children, aggregate, index, condition, branches, ...) and
then self.combine on exactly those results; CombineMapper.rec / __call__ dispatch to the map_* method of the node.
With MC for the six own methods proved here, MC for the inherited ones follows by structural induction, and
__call__'s postcondition is the 'finder postcondition' that C18's proof of the collapsing mapper is relative to.
"""
import ast as pyast
import z3
from z3 import And, Or, Not, Implies, ForAll, Select, Store, If, IntSort, BoolSort

from pyvc.values import *  # noqa
from pyvc.contracts import FunctionContract, FunctionUnit, Unit
from pyvc.engine import Obligation
from pyvc import extract
from .c08 import Expr, EXPR
from .c18 import C

REL = "dagrt/expression.py"
CLS = "_ConstantFindingMapper"

ExprSet = z3.ArraySort(Expr, BoolSort())
IS_VAR = z3.Function("is_Variable", Expr, BoolSort())
IS_LEAFC = z3.Function("is_constant_or_function_symbol", Expr, BoolSort())
CH = z3.Function("is_direct_subexpression_of", Expr, Expr, BoolSort())     # CH(c, e)
not_child = z3.Function("child_of_LogicalNot", Expr, Expr)
IS_NOT = z3.Function("is_LogicalNot", Expr, BoolSort())

STACK = TList(EXPR)
TABLE = TDict(EXPR, BOOL)
FVSET = TSet(EXPR)


def spec_axioms(FV):
    e, c = z3.Consts("e c", Expr)
    return [
        # a variable mentions exactly itself
        ForAll([e], Implies(IS_VAR(e), C(e) == Not(Select(FV, e)))),
        # numbers and function symbols mention no variable
        ForAll([e], Implies(IS_LEAFC(e), C(e))),
        # a composite node mentions what its direct subexpressions mention
        ForAll([e], Implies(And(Not(IS_VAR(e)), Not(IS_LEAFC(e)), ForAll([c], Implies(CH(c, e), C(c)))), C(e))),
        ForAll([e, c], Implies(IS_NOT(e), And(Not(IS_VAR(e)), Not(IS_LEAFC(e)), CH(c, e) == (c == not_child(e))))),
    ]


def sound(tbl):
    x = z3.Const("x", Expr)
    return ForAll([x], Implies(And(Select(tbl.dom, x), Select(tbl.val, x)), C(x)))


class VResults(V):
    """the results handed to combine(): conj = all of them are True"""
    ty = None

    def __init__(self, conj, disj=None):
        self.conj = conj
        self.disj = disj if disj is not None else z3.Bool(fresh_name("some_result_true"))


class FinderMethod(FunctionContract):
    prop = "C18"
    relpath = REL
    prune_quantified = False

    def __init__(self, method):
        self.qualname = CLS + "." + method
        self.e = z3.Const("expr", Expr)
        self.FV = z3.Const("free_variables", ExprSet)
        self.S_n = z3.Int("stack_n")
        self.S_a = z3.Const("stack_a", STACK.asort)
        self.T0 = TABLE.fresh("table0")

    axioms = property(lambda self: tuple(spec_axioms(self.FV)))

    def mk_self(self, ctx):
        self.stack_ref = ctx.alloc(VList(STACK, self.S_n, self.S_a))
        self.tbl_ref = ctx.alloc(self.T0)
        return ctx.alloc(VObj(TObj("Finder", {}), {
            "free_variables": VSet(FVSET, self.FV), "node_stack": self.stack_ref, "is_constant": self.tbl_ref}))

    def params(self, ctx):
        ctx.env["self"] = self.mk_self(ctx)
        ctx.env["expr"] = EXPR.wrap(self.e)

    def top_is_expr(self):
        return And(self.S_n >= 1, Select(self.S_a, self.S_n - 1) == self.e)

    def requires(self, st):
        return [("stack-top-is-the-node", self.top_is_expr()), ("table-sound", sound(self.T0))]

    def stack(self, st):
        return st._deref(self.stack_ref)

    def table(self, st):
        return st._deref(self.tbl_ref)

    def mc_post(self, st, node, result_term):
        s, t = self.stack(st), self.table(st)
        j = z3.Int("j")
        return [("stack-popped-back", And(s.n == self.S_n - 1,
                                          ForAll([j], Implies(And(0 <= j, j < s.n), Select(s.a, j) == Select(self.S_a, j))))),
                ("table-stays-sound", sound(t)),
                ("node-is-classified-with-the-returned-value", And(Select(t.dom, node), Select(t.val, node) == result_term)),
                ("constant-only-if-it-mentions-no-free-variable", Implies(result_term, C(node)))]

    def ensures(self, st):
        r = st.result
        if not isinstance(r, VBool):
            return [("returns-a-flag", z3.BoolVal(False))]
        return self.mc_post(st, self.e, r.t)

    # ---- callee models (by contract MC) ---------------------------------------------------------------------------
    def model_mc(self, ctx, it, node, pushed_already):
        """a mapper method run on `node` whose stack top is `node`: MC"""
        s = ctx.deref(self.stack_ref)
        t = ctx.deref(self.tbl_ref)
        ctx.oblige("call[mapper-method]/pre[stack-top-is-the-node]@L%s" % ctx.cur_line,
                   And(s.n >= 1, Select(s.a, s.n - 1) == node))
        ctx.oblige("call[mapper-method]/pre[table-sound]@L%s" % ctx.cur_line, sound(t))
        r = z3.Bool(fresh_name("classified"))
        nt = TABLE.fresh("table_after")
        ctx.store(self.stack_ref, VList(STACK, s.n - 1, s.a))
        ctx.store(self.tbl_ref, nt)
        ctx.assume(sound(nt))
        ctx.assume(And(Select(nt.dom, node), Select(nt.val, node) == r))
        ctx.assume(Implies(r, C(node)))
        return VBool(r)


class MapVariable(FinderMethod):
    def __init__(self):
        super().__init__("map_variable")

    def requires(self, st):
        return super().requires(st) + [("node-is-a-variable", IS_VAR(self.e))]


class MapConstant(FinderMethod):
    def __init__(self):
        super().__init__("map_constant")

    def requires(self, st):
        return super().requires(st) + [("node-is-a-number-or-function-symbol", IS_LEAFC(self.e))]


class Combine(FinderMethod):
    """combine(exprs): called by the (inherited) composite methods with the results of all direct subexpressions"""

    def __init__(self):
        super().__init__("combine")
        self.conj = z3.Bool("all_results_true")

    def params(self, ctx):
        ctx.env["self"] = self.mk_self(ctx)
        ctx.env["exprs"] = VResults(self.conj)

    def requires(self, st):
        c = z3.Const("c", Expr)
        return super().requires(st) + [
            ("node-is-composite", And(Not(IS_VAR(self.e)), Not(IS_LEAFC(self.e)))),
            ("A-COMBINE: results-of-all-direct-subexpressions(each True only if that subexpression is constant)",
             Implies(self.conj, ForAll([c], Implies(CH(c, self.e), C(c)))))]

    def m_reduce(self, ctx, it, args, kw):
        f, xs = ctx.deref(args[0]), ctx.deref(args[1])
        if not isinstance(xs, VResults):
            raise Unsupported("reduce over %r" % (xs,))
        if isinstance(f, VPy) and f.py == "operator.and_":
            return VBool(xs.conj)
        if isinstance(f, VPy) and f.py == "operator.or_":
            return VBool(xs.disj)
        raise Unsupported("reduce with %r" % (f,))

    names = property(lambda self: {"reduce": VFunc("reduce", self.m_reduce), "operator": VPy("operator")})

    def getattr_hook(self, ctx, it, obj, name):
        o = ctx.deref(obj)
        if isinstance(o, VPy) and o.py == "operator":
            return VPy("operator." + name)
        return None


class MapLogicalNot(FinderMethod):
    def __init__(self):
        super().__init__("map_logical_not")

    def requires(self, st):
        return super().requires(st) + [("node-is-a-LogicalNot", IS_NOT(self.e))]

    def m_rec(self, ctx, it, args, kw):
        """self.rec(child) by its contract (unit Rec): net effect on the stack none, child classified"""
        node = ctx.deref(args[0]).t
        s = ctx.deref(self.stack_ref)
        t = ctx.deref(self.tbl_ref)
        ctx.oblige("call[rec]/pre[table-sound]@L%s" % ctx.cur_line, sound(t))
        r = z3.Bool(fresh_name("rec_result"))
        nt = TABLE.fresh("table_after_rec")
        ctx.store(self.tbl_ref, nt)
        ctx.assume(sound(nt))
        ctx.assume(Implies(r, C(node)))
        ctx.ghost["rec_results"] = ctx.ghost.get("rec_results", []) + [(node, r)]
        return VBool(r)

    def m_combine(self, ctx, it, args, kw):
        lst = ctx.deref(args[0])
        if not (isinstance(lst, VTuple)):
            raise Unsupported("combine(%r)" % (lst,))
        rs = [ctx.deref(x) for x in lst.items]
        conj = And(*[x.t for x in rs]) if rs else z3.BoolVal(True)
        c = z3.Const("c", Expr)
        s = ctx.deref(self.stack_ref)
        cur = Select(s.a, s.n - 1)
        ctx.oblige("call[combine]/pre[stack-nonempty]@L%s" % ctx.cur_line, s.n >= 1)
        ctx.oblige("call[combine]/pre[node-is-composite]@L%s" % ctx.cur_line, And(Not(IS_VAR(cur)), Not(IS_LEAFC(cur))))
        ctx.oblige("call[combine]/pre[results-of-all-direct-subexpressions]@L%s" % ctx.cur_line,
                   Implies(conj, ForAll([c], Implies(CH(c, cur), C(c)))))
        return self.model_mc(ctx, it, cur, True)

    def list_literal(self, ctx, it, e):
        return VTuple([it.eval(x) for x in e.elts])

    def getattr_hook(self, ctx, it, obj, name):
        o = ctx.deref(obj)
        if isinstance(o, VElem) and o.ty is EXPR and name == "child":
            return EXPR.wrap(not_child(o.t))
        return None

    calls = property(lambda self: {"self.rec": self.m_rec, "self.combine": self.m_combine})


class Rec(FinderMethod):
    """rec(expr): push, then dispatch (CombineMapper.rec -> the node's mapper method, MC)"""

    def __init__(self):
        super().__init__("rec")

    def requires(self, st):
        return [("table-sound", sound(self.T0)), ("stack", self.S_n >= 0)]

    def m_dispatch(self, ctx, it, args, kw):
        node = ctx.deref(args[1]).t
        return self.model_mc(ctx, it, node, True)

    calls = property(lambda self: {"CombineMapper.rec": self.m_dispatch})

    def ensures(self, st):
        r = st.result
        s, t = self.stack(st), self.table(st)
        j = z3.Int("j")
        if not isinstance(r, VBool):
            return [("returns-a-flag", z3.BoolVal(False))]
        return [("stack-as-before", And(s.n == self.S_n, ForAll([j], Implies(And(0 <= j, j < s.n), Select(s.a, j) == Select(self.S_a, j))))),
                ("table-stays-sound", sound(t)),
                ("constant-only-if-it-mentions-no-free-variable", Implies(r.t, C(self.e)))]


class Call(FinderMethod):
    """__call__(expr): the table it returns is sound — the finder postcondition C18 relies on"""

    def __init__(self):
        super().__init__("__call__")

    def requires(self, st):
        return [("stack", self.S_n >= 0)]

    def m_dispatch(self, ctx, it, args, kw):
        node = ctx.deref(args[1]).t
        return self.model_mc(ctx, it, node, True)

    calls = property(lambda self: {"CombineMapper.__call__": self.m_dispatch})

    def dict_literal(self, ctx, it, e):
        if e.keys:
            raise Unsupported("dict literal")
        r = ctx.alloc(VDict(TABLE, z3.K(Expr, z3.BoolVal(False)), z3.K(Expr, z3.BoolVal(False))))
        self.tbl_ref = r          # self.is_constant is rebound to this new dict
        return r

    def inv(self, s):
        t = s._deref(s._deref(s._env["self"]).fields["is_constant"])
        return [("only-False-entries-so-far", sound(t))]

    loops = property(lambda self: {0: dict(shape="for variable in self.free_variables", inv=self.inv)})

    def ensures(self, st):
        r = st.result
        if not isinstance(r, VDict):
            return [("returns-the-table", z3.BoolVal(False))]
        return [("finder-postcondition: an entry is True only if the expression mentions no free variable", sound(r))]


class ClassShape(Unit):
    """the class defines exactly the methods that are under contract (a new override is not covered by MC)"""
    label = "class-shape:" + CLS
    KNOWN = {"__init__", "__call__", "rec", "combine", "map_constant", "map_function_symbol", "map_logical_not",
             "map_variable"}

    def generate(self):
        tree, _ = extract.parse_module(REL)
        cls = [n for n in pyast.walk(tree) if isinstance(n, pyast.ClassDef) and n.name == CLS]
        if not cls:
            raise Unsupported("class %s not found" % CLS)
        names, aliases = set(), {}
        for n in cls[0].body:
            if isinstance(n, pyast.FunctionDef):
                names.add(n.name)
            elif isinstance(n, pyast.Assign):
                for t in n.targets:
                    if isinstance(t, pyast.Name):
                        names.add(t.id)
                        aliases[t.id] = pyast.unparse(n.value)
        extra = sorted(names - self.KNOWN)
        if extra:
            raise Unsupported("%s defines mapper methods that are not under contract: %s" % (CLS, ", ".join(extra)))
        bases = [pyast.unparse(b) for b in cls[0].bases]
        ok = aliases.get("map_function_symbol") == "map_constant" and bases == ["CombineMapper"]
        ob = Obligation("%s/function-symbols-are-classified-as-constants-and-the-base-is-CombineMapper" % self.label, [],
                        z3.BoolVal(ok))
        ob.external = {"ok": ok, "seconds": 0.0, "backend": "ast", "output": "bases=%s aliases=%s" % (bases, aliases)}
        return [], [ob], {"class": CLS, "methods": sorted(names)}


def units():
    return [FunctionUnit(MapVariable()), FunctionUnit(MapConstant()), FunctionUnit(Combine()),
            FunctionUnit(MapLogicalNot()), FunctionUnit(Rec()), FunctionUnit(Call()), ClassShape()]
