"""C20 — line wrapping of generated code changes layout only.

Functions under contract (read from /repo on every run):
  dagrt/codegen/utils.py: wrap_line_base
  dagrt/codegen/python.py: pad_python      dagrt/codegen/fortran.py: pad_fortran
  the module-level bindings wrap_line of both back ends (WrapBinding)
  dagrt/codegen/python.py: CodeGenerator._emit (PyEmitCallSite)
  dagrt/codegen/fortran.py: CodeGenerator.get_code (c20site.FortranGetCodeSite)
"""
import ast as pyast
import z3
from z3 import And, Or, Not, Implies, ForAll, Select, If, IntSort, BoolSort

from pyvc.values import *  # noqa
from pyvc.engine import Obligation
from pyvc.contracts import FunctionContract, FunctionUnit, LemmaUnit
from pyvc import extract

PROP = "C20"

Tok = z3.DeclareSort("Tok")
tlen = z3.Function("tlen", Tok, IntSort())          # len(token)
TOK = TElem("Tok", Tok)
TOKLIST = TList(TOK)


class VLine(V):
    """a line under construction: only its length and which tokens it holds are tracked.
    It holds tokens[first .. first+cnt), optionally after the continuation indentation."""
    ty = None

    def __init__(self, n, first, cnt, cont):
        self.n, self.first, self.cnt, self.cont = n, first, cnt, cont

    def length(self, it):
        return VInt(self.n)

    def fresh_like(self, ctx, base):
        v = VLine(z3.Int(fresh_name(base + "_len")), z3.Int(fresh_name(base + "_first")),
                  z3.Int(fresh_name(base + "_cnt")), z3.Bool(fresh_name(base + "_cont")))
        ctx.assume(And(v.n >= 0, v.cnt >= 0))
        return v

    def binop(self, it, op, other, node):
        ctx = it.ctx
        if op is not pyast.Add:
            raise Unsupported("line op")
        idx = ctx.deref(ctx.env["index"]).t
        if isinstance(other, VSepWord):
            # current_line += " " + word: the word must be the next token in sequence
            ctx.oblige(it.oname("tokens-are-appended-whole-and-in-sequence"),
                       And(other.index == self.first + self.cnt, self.cnt >= 1))
            return VLine(self.n + 1 + tlen(other.tok), self.first, self.cnt + 1, self.cont)
        if isinstance(other, VElem) and other.ty is TOK:
            # current_line += word at a line start
            widx = _index_of(ctx, other)
            ctx.oblige(it.oname("first-token-of-a-line-is-the-next-token"), And(self.cnt == 0, widx == idx))
            return VLine(self.n + tlen(other.t), widx, z3.IntVal(1), self.cont)
        raise Unsupported("line + %r" % (other,))


class VSepWord(V):
    ty = None

    def __init__(self, tok, index):
        self.tok, self.index = tok, index


class VIndent(V):
    """the `indentation` string: only its length is tracked"""
    ty = None

    def __init__(self, n):
        self.n = n

    def length(self, it):
        return VInt(self.n)


def _index_of(ctx, tokv):
    return ctx.deref(ctx.env["index"]).t


class VLines(V):
    """resulting_lines: every append is checked against the layout clauses (ghost `emitted`)"""
    ty = None

    def fresh_like(self, ctx, base):
        return self


def _lines_append(ctx, it, obj, args, kw):
    line = ctx.deref(args[0])
    if not isinstance(line, VLine):
        raise Unsupported("appending %r to resulting_lines" % (line,))
    c = it.c
    emitted = ctx.ghost["emitted"]
    ind = ctx.deref(ctx.env["indentation_len"]).t
    ctx.oblige(it.oname("emitted-line-continues-the-token-sequence"), Implies(line.cnt >= 1, line.first == emitted))
    ctx.oblige(it.oname("emitted-line-with-several-tokens-fits-the-width"),
               Implies(line.cnt >= 2, ind + line.n <= c.width))
    ctx.ghost["emitted"] = emitted + line.cnt
    ctx.ghost["nlines"] = ctx.ghost["nlines"] + 1
    return NONE


VLines.methods = {"append": _lines_append}


class VEnumerate(V):
    ty = None

    def __init__(self, L):
        self.L = L

    def for_loop(self, it, s, k, spec, ex):
        L = self.L
        ctx = it.ctx
        ex["$i"] = VInt(0)

        def guard_fn():
            i = ex["$i"].t
            ctx.assume(And(i >= 0, i <= L.n))
            return i < L.n

        def prologue():
            i = ex["$i"].t
            it.assign(s.target, VTuple([VInt(i), TOK.wrap(Select(L.a, i))]))

        def epilogue():
            ex["$i"] = VInt(z3.simplify(ex["$i"].t + 1))

        it.run_cut_loop(s, k, spec, guard_fn, prologue, epilogue, lambda: None)


class WrapLine(FunctionContract):
    prop = PROP
    relpath = "dagrt/codegen/utils.py"
    qualname = "wrap_line_base"
    prune_quantified = False

    def __init__(self):
        self.width = z3.Int("width")
        self.ilen = z3.Int("len_indentation")
        self.lvl_ilen = z3.Int("len_level_times_indentation")
        self.ntok = z3.Int("n_tokens")
        self.toks = z3.Const("tokens_a", TOKLIST.asort)

    def params(self, ctx):
        ctx.env["line"] = VPy("<line>")
        ctx.env["level"] = VPy("<level>")
        ctx.env["width"] = VInt(self.width)
        ctx.env["indentation"] = VIndent(self.ilen)
        ctx.env["pad_func"] = VFunc("pad_func", self.m_pad)
        ctx.env["lex_func"] = VFunc("lex_func", self.m_lex)

    def ghosts(self, ctx):
        ctx.ghost["emitted"] = z3.IntVal(0)
        ctx.ghost["nlines"] = z3.IntVal(0)

    def requires(self, st):
        t = z3.Const("t", Tok)
        return [("lengths", And(self.ilen >= 0, self.lvl_ilen >= 0, self.ntok >= 0)),
                ("tokens-have-a-length", ForAll([t], tlen(t) >= 0))]

    # ---- parameters with contracts ------------------------------------------------------------
    def m_lex(self, ctx, it, args, kw):
        """A-LEX: lex_func(line) is the token list of the line"""
        return ctx.alloc(VList(TOKLIST, self.ntok, self.toks))

    def m_pad(self, ctx, it, args, kw):
        """contract of pad_func (proved for pad_python and pad_fortran below): the same text,
        blanks, and one continuation marker; length max(len+1, amount)"""
        line = ctx.deref(args[0])
        amount = ctx.deref(args[1]).t
        return VLine(If(line.n + 1 >= amount, line.n + 1, amount), line.first, line.cnt, line.cont)

    def equal_hook(self, ctx, it, a, b, identity):
        if isinstance(a, VFunc) and isinstance(b, VNone) or isinstance(b, VFunc) and isinstance(a, VNone):
            return z3.BoolVal(False)
        return None

    def havoc_var(self, ctx, it, name, v):
        if name == "current_line":
            return VLine(None, None, None, None).fresh_like(ctx, "line")
        return None

    def binop_hook(self, ctx, it, op, a, b):
        if op is pyast.Add and isinstance(b, VElem) and b.ty is TOK and \
                (isinstance(a, VIndent) or (isinstance(a, VPy) and a.py == "")):
            return _as_line(None, a).binop(it, op, b, None)
        if op is pyast.Mult and isinstance(b, VIndent):
            return VIndent(self.lvl_ilen)          # level * indentation
        if op is pyast.Add and isinstance(a, VPy) and a.py == " " and isinstance(b, VElem) and b.ty is TOK:
            return VSepWord(b.t, ctx.deref(ctx.env["index"]).t)
        return None

    def list_literal(self, ctx, it, e):
        if e.elts:
            raise Unsupported("list literal")
        return ctx.alloc(VLines())

    def m_enumerate(self, ctx, it, args, kw):
        return VEnumerate(ctx.deref(args[0]))

    def m_len(self, ctx, it, args, kw):
        v = ctx.deref(args[0])
        if isinstance(v, VElem) and v.ty is TOK:
            return VInt(tlen(v.t))
        from pyvc.interp import _b_len
        return _b_len(ctx, it, args, kw)

    names = property(lambda self: {"enumerate": VFunc("enumerate", self.m_enumerate),
                                   "len": VFunc("len", self.m_len)})

    def st_assign_hook(self):
        pass

    # `current_line = ""` and `current_line = indentation`
    def coerce_line(self, ctx, v):
        return v

    def inv(self, s):
        i = s.loop(0)["$i"].t
        cl = _as_line(s, s.current_line)
        ind = s.indentation_len.t
        emitted = s.g("emitted")
        als = s.at_line_start.t
        return [
            ("setup-unchanged", And(s.indentation_len.t == self.lvl_ilen, s.padding_width.t == self.width - self.lvl_ilen,
                                    s.tokens.n == self.ntok, s.tokens.a == self.toks)),
            ("line-length>=0", And(cl.n >= 0, cl.cnt >= 0, s.g("nlines") >= 0)),
            ("every-earlier-token-is-placed-exactly-once", emitted + cl.cnt == i),
            ("current-line-starts-where-the-emitted-lines-end", Implies(cl.cnt >= 1, cl.first == emitted)),
            ("at_line_start-iff-the-line-holds-no-token", als == (cl.cnt == 0)),
            ("a-line-with-several-tokens-fits",
             Implies(cl.cnt >= 2, Or(ind + cl.n < self.width, And(ind + cl.n == self.width, i == self.ntok)))),
        ]

    loops = property(lambda self: {0: dict(shape="for (index, word) in enumerate(tokens)", inv=self.inv,
                                           havoc_ghosts=["emitted", "nlines"])})

    def ensures(self, st):
        return [("every-token-appears-exactly-once-in-order", st.g("emitted") == self.ntok),
                ("at-least-one-line", st.g("nlines") >= 1)]


def _as_line(s, v):
    if isinstance(v, VLine):
        return v
    if isinstance(v, VPy) and v.py == "":
        return VLine(z3.IntVal(0), z3.IntVal(0), z3.IntVal(0), z3.BoolVal(False))
    if isinstance(v, VIndent):
        return VLine(v.n, z3.IntVal(0), z3.IntVal(0), z3.BoolVal(True))
    raise Unsupported("current_line is %r" % (v,))


# ==========================================================================
class PadContract(FunctionContract):
    """pad_python / pad_fortran with z3 strings: result == line ++ blanks ++ marker,
    len(result) == max(len(line) + 1, width)"""
    prop = PROP
    strings_symbolic = True

    def __init__(self, relpath, qualname, marker):
        self.relpath = relpath
        self.qualname = qualname
        self.marker = marker
        self.line = z3.String("line")
        self.width = z3.Int("width")

    def params(self, ctx):
        ctx.env["line"] = VStr(self.line)
        ctx.env["width"] = VInt(self.width)

    def binop_hook(self, ctx, it, op, a, b):
        # " " * k: k blanks (none if k <= 0)
        if op is pyast.Mult and isinstance(a, VStr) and isinstance(b, VInt):
            r = z3.String(fresh_name("blanks"))
            ctx.assume(z3.Length(r) == If(b.t > 0, b.t, 0))
            ctx.assume(z3.InRe(r, z3.Star(z3.Re(a.t))))
            ctx.ghost["blanks"] = r
            return VStr(r)
        return None

    def ghosts(self, ctx):
        ctx.ghost["blanks"] = z3.StringVal("")

    def ensures(self, st):
        r = st.result.t
        n = z3.Length(self.line)
        return [("length-is-max(len+1,width)", z3.Length(r) == If(n + 1 >= self.width, n + 1, self.width)),
                ("text-is-kept-then-blanks-then-one-marker",
                 r == z3.Concat(self.line, st.g("blanks"), z3.StringVal(self.marker))),
                ("padding-is-blank", z3.InRe(st.g("blanks"), z3.Star(z3.Re(z3.StringVal(" ")))))]


class WrapLineDefault(WrapLine):
    """the same contract when no lexer is passed: the default must be functools.partial(shlex.split, posix=False), the
    lexer A-LEX is stated for (blank-separated words, a quote respected at the start of a word, NO comment character);
    any other default is outside the assumption: undecided, the bounded stand-in decides"""
    variant_name = "default-lexer"

    def params(self, ctx):
        super().params(ctx)
        ctx.env["lex_func"] = NONE

    def m_partial(self, ctx, it, args, kw):
        f = ctx.deref(args[0]) if args else None
        posix = ctx.deref(kw["posix"]) if "posix" in kw else None
        ok = (len(args) == 1 and isinstance(f, VPy) and f.py == "shlex.split" and set(kw) == {"posix"}
              and isinstance(posix, VBool) and z3.is_false(z3.simplify(posix.t)))
        if not ok:
            raise Unsupported("default lexer is not functools.partial(shlex.split, posix=False): A-LEX does not cover it")
        return VFunc("lex_func", self.m_lex)

    def getattr_hook(self, ctx, it, obj, name):
        o = ctx.deref(obj)
        if isinstance(o, VPy) and o.py in ("shlex", "functools"):
            return VPy(o.py + "." + name)
        base = getattr(super(), "getattr_hook", None)
        return base(ctx, it, obj, name) if base else None

    @property
    def calls(self):
        d = dict(getattr(super(), "calls", {}) or {})
        d["functools.partial"] = self.m_partial
        return d

    @property
    def names(self):
        d = dict(getattr(super(), "names", {}) or {})
        d.update({"shlex": VPy("shlex"), "functools": VPy("functools")})
        return d


# ==========================================================================
class WrapBinding(FunctionContract):
    """The module-level name `wrap_line` of a back end, which is what the emitters call: it must hand line, level, width and
    indentation to wrap_line_base unchanged, with pad_func the back end's own pad function and the default lexer.

    Two shapes are within reach:
      wrap_line = partial(wrap_line_base, pad_func=pad_X)      -> the value expression is evaluated (wrapped into a
                                                                   synthetic `def wrap_line(): return <value>`, stated in `dropped`)
      def wrap_line(line, level=..., width=..., indentation=...) -> the function is executed symbolically, wrap_line_base being an
                                                                   uninterpreted function W(line, level, width, indentation, pad, lex)
    anything else is undecided."""
    prop = PROP
    strings_symbolic = True
    qualname = "wrap_line"
    W_DEFAULTS = ("line", "level", "width", "indentation", "pad_func", "lex_func")

    def __init__(self, relpath, pad_name):
        self.relpath = relpath
        self.pad_name = pad_name
        self.line = z3.String("line")
        self.level = z3.Int("level")
        self.width = z3.Int("width")
        self.indentation = z3.String("indentation")
        self.Lines = z3.DeclareSort("Lines")
        self.W = z3.Function("wrap_line_base", z3.StringSort(), z3.IntSort(), z3.IntSort(), z3.StringSort(),
                             z3.IntSort(), z3.IntSort(), self.Lines)
        self.is_def = None

    PADS = {"pad_python": 1, "pad_fortran": 2}

    def load(self):
        import ast, copy
        tree, text = extract.parse_module(self.relpath)
        found = None
        for node in tree.body:
            if isinstance(node, ast.FunctionDef) and node.name == "wrap_line":
                found = node
            elif isinstance(node, ast.Assign) and any(isinstance(t, ast.Name) and t.id == "wrap_line" for t in node.targets):
                found = node
        if found is None:
            raise extract.ExtractionError("%s: no module-level binding of wrap_line" % self.relpath)
        src = ast.get_source_segment(text, found)
        if isinstance(found, ast.FunctionDef):
            self.is_def = True
            return extract.load_function(self.relpath, "wrap_line")
        self.is_def = False
        fn = ast.parse("def wrap_line():\n    return None").body[0]
        fn.body[0].value = copy.deepcopy(found.value)
        ast.fix_missing_locations(fn)
        return extract.Extracted(self.relpath, "wrap_line", fn, src, (found.lineno, found.end_lineno),
                                 ["module-level assignment `wrap_line = <value>` is checked as `def wrap_line(): return <value>`"],
                                 None)

    def params(self, ctx):
        if self.is_def:
            import ast
            fn = ctx.engine.fn
            a = fn.args
            if a.vararg or a.kwarg or a.kwonlyargs or a.posonlyargs:
                raise Unsupported("wrap_line with *args / **kwargs / keyword-only parameters")
            known = {"line": VStr(self.line), "level": VInt(self.level), "width": VInt(self.width),
                     "indentation": VStr(self.indentation)}
            for arg in a.args:
                if arg.arg not in known:
                    raise Unsupported("wrap_line has a parameter %r the emitters never pass" % arg.arg)
                ctx.env[arg.arg] = known[arg.arg]

    # wrap_line_base's own defaults, read from the real signature
    def _base_defaults(self):
        import ast
        ex = extract.load_function("dagrt/codegen/utils.py", "wrap_line_base")
        a = ex.node.args
        names = [x.arg for x in a.args]
        if tuple(names) != self.W_DEFAULTS:
            raise Unsupported("wrap_line_base signature is %r" % (names,))
        return names

    def _pad_id(self, v):
        if isinstance(v, VPy) and v.py in self.PADS:
            return z3.IntVal(self.PADS[v.py])
        if v is NONE:
            return z3.IntVal(0)
        raise Unsupported("pad_func=%r" % (v,))

    def _w_term(self, ctx, args, kw):
        """wrap_line_base(*args, **kw) -> W(...) term, or None when a needed argument is not bound (partial application)"""
        names = self._base_defaults()
        bound = {}
        for n, v in zip(names, args):
            bound[n] = ctx.deref(v)
        for k, v in kw.items():
            if k in bound or k not in names:
                raise Unsupported("wrap_line_base(%s=...)" % k)
            bound[k] = ctx.deref(v)
        return bound

    def m_base(self, ctx, it, args, kw):
        b = self._w_term(ctx, args, kw)
        # an argument the wrapper does not pass takes wrap_line_base's own default, read from the real signature
        import ast
        a = extract.load_function("dagrt/codegen/utils.py", "wrap_line_base").node.args
        defaults = dict(zip([x.arg for x in a.args][len(a.args) - len(a.defaults):], a.defaults))
        for need, ty in (("line", VStr), ("level", VInt), ("width", VInt), ("indentation", VStr)):
            if need not in b:
                d = defaults.get(need)
                if isinstance(d, ast.Constant) and isinstance(d.value, str) and ty is VStr:
                    b[need] = VStr(z3.StringVal(d.value))
                elif isinstance(d, ast.Constant) and isinstance(d.value, int) and not isinstance(d.value, bool) and ty is VInt:
                    b[need] = VInt(z3.IntVal(d.value))
                else:
                    raise Unsupported("wrap_line_base called without %s" % need)
            if not isinstance(b[need], ty):
                raise Unsupported("%s=%r" % (need, b[need]))
        lex = b.get("lex_func", NONE)
        if lex is not NONE:
            raise Unsupported("lex_func=%r: A-LEX is stated for the default lexer" % (lex,))
        t = self.W(b["line"].t, b["level"].t, b["width"].t, b["indentation"].t, self._pad_id(b.get("pad_func", NONE)),
                   z3.IntVal(0))
        return VElem(None, t)

    def m_partial(self, ctx, it, args, kw):
        f = ctx.deref(args[0]) if args else None
        if not (isinstance(f, VPy) and f.py == "wrap_line_base"):
            raise Unsupported("partial(%r, ...)" % (f,))
        return VTuple([VPy("partial-of-wrap_line_base"), VTuple(list(args[1:])),
                       VTuple([VTuple([VPy(k), v]) for k, v in sorted(kw.items())])])

    def getattr_hook(self, ctx, it, obj, name):
        o = ctx.deref(obj)
        if isinstance(o, VPy) and o.py == "functools":
            return VPy("functools." + name)
        return None

    @property
    def calls(self):
        return {"wrap_line_base": self.m_base, "partial": self.m_partial, "functools.partial": self.m_partial}

    @property
    def names(self):
        return {"wrap_line_base": VPy("wrap_line_base"), "pad_python": VPy("pad_python"), "pad_fortran": VPy("pad_fortran"),
                "functools": VPy("functools"), "partial": VPy("partial")}

    def ensures(self, st):
        r = st._deref(st.result)
        if self.is_def:
            if not (isinstance(r, VElem) and z3.is_expr(r.t) and r.t.sort() == self.Lines):
                return [("returns-what-wrap_line_base-returns", z3.BoolVal(False))]
            want = self.W(self.line, self.level, self.width, self.indentation, z3.IntVal(self.PADS[self.pad_name]), z3.IntVal(0))
            return [("hands-line-level-width-indentation-unchanged-to-wrap_line_base-with-the-back-end's-pad-function",
                     r.t == want)]
        ok = False
        if isinstance(r, VTuple) and len(r.items) == 3:
            tag, pos, kws = [st._deref(x) for x in r.items]
            if isinstance(tag, VPy) and tag.py == "partial-of-wrap_line_base" and not pos.items and len(kws.items) == 1:
                k, v = [st._deref(x) for x in st._deref(kws.items[0]).items]
                ok = (isinstance(k, VPy) and k.py == "pad_func" and isinstance(v, VPy) and v.py == self.pad_name)
        return [("binds-only-pad_func-to-the-back-end's-pad-function(every-other-argument-reaches-wrap_line_base-as-passed)",
                 z3.BoolVal(ok))]



# ==========================================================================
class PyEmitCallSite(FunctionContract):
    """dagrt/codegen/python.py: CodeGenerator._emit(line), the Python emitter's use of wrap_line.  The line reaches wrap_line
    unchanged (wrapping must see the tokens the generator wrote), at level = class level + function level and with the
    emitter's own width and indentation (no further argument); every wrapped line is handed to the emitter exactly once, in
    order, and nothing else is emitted.  wrap_line is uninterpreted here (its contract is WrapBinding + WrapLine)."""
    prop = PROP
    relpath = "dagrt/codegen/python.py"
    qualname = "CodeGenerator._emit"
    strings_symbolic = True

    def __init__(self):
        self.line = z3.String("line")
        self.cl, self.el = z3.Int("class_emitter_level"), z3.Int("emitter_level")
        self.W = TList(STR).fresh("wrapped")

    class VEmitter(V):
        ty = None

        def __init__(self, outer, level):
            self.outer, self.level = outer, level

        def call(self, ctx, it, args, kw):
            a = ctx.deref(args[0]) if len(args) == 1 and not kw else None
            if not isinstance(a, VStr):
                raise Unsupported("emitter(%r)" % (args,))
            k = ctx.ghost["emitted"]
            W = self.outer.W
            ctx.oblige("each-emitted-line-is-the-next-wrapped-line@L%s" % ctx.cur_line,
                       And(ctx.ghost["wrapped_called"], k < W.n, a.t == z3.Select(W.a, k)))
            ctx.ghost["emitted"] = k + 1
            return NONE

    def params(self, ctx):
        em = self.VEmitter(self, self.el)
        ce = self.VEmitter(self, self.cl)
        ctx.env["self"] = VObj(TObj("CodeGenerator", {}), {"_emitter": em, "_class_emitter": ce})
        ctx.env["line"] = VStr(self.line)
        ctx.ghost["emitted"] = z3.IntVal(0)
        ctx.ghost["wrapped_called"] = z3.BoolVal(False)
        ctx.assume(self.W.n >= 0)

    def getattr_hook(self, ctx, it, obj, name):
        o = ctx.deref(obj)
        if isinstance(o, self.VEmitter) and name == "level":
            return VInt(o.level)
        return None

    def m_wrap(self, ctx, it, args, kw):
        if z3.is_true(z3.simplify(ctx.ghost["wrapped_called"])):
            raise Unsupported("wrap_line called twice")
        names = ["line", "level", "width", "indentation"]
        b = {}
        for n, v in zip(names, args):
            b[n] = ctx.deref(v)
        for k, v in kw.items():
            if k in b or k not in names:
                raise Unsupported("wrap_line(%s=...)" % k)
            b[k] = ctx.deref(v)
        if set(b) - {"line", "level"}:
            raise Unsupported("wrap_line is given %s by the emitter: the generated file's width and indentation are the "
                              "emitter's (80, four blanks); another choice is not covered" % sorted(set(b) - {"line", "level"}))
        if not (isinstance(b.get("line"), VStr) and isinstance(b.get("level"), VInt)):
            raise Unsupported("wrap_line(%r)" % (b,))
        ctx.oblige("the-line-reaches-wrap_line-unchanged@L%s" % ctx.cur_line, b["line"].t == self.line)
        ctx.oblige("wrapped-at-class-level-plus-function-level@L%s" % ctx.cur_line, b["level"].t == self.cl + self.el)
        ctx.ghost["wrapped_called"] = z3.BoolVal(True)
        return self.W

    names = property(lambda self: {"wrap_line": VFunc("wrap_line", self.m_wrap)})

    def inv(self, s):
        return [("emitted-so-far-are-the-wrapped-lines-before-this-one", s.g("emitted") == s.loop(0)["$i"].t)]

    loops = property(lambda self: {0: dict(shape="for wrapped_line in wrap_line(line, level)", inv=self.inv,
                                           havoc_ghosts=["emitted"])})

    def ensures(self, st):
        return [("every-wrapped-line-is-emitted-exactly-once-in-order-and-nothing-else",
                 And(st.g("wrapped_called"), st.g("emitted") == self.W.n))]


def units():
    from . import c20site
    return [FunctionUnit(WrapLine()), FunctionUnit(WrapLineDefault()), FunctionUnit(PyEmitCallSite())] + c20site.units() + [
            FunctionUnit(WrapBinding("dagrt/codegen/python.py", "pad_python")),
            FunctionUnit(WrapBinding("dagrt/codegen/fortran.py", "pad_fortran")),
            FunctionUnit(PadContract("dagrt/codegen/python.py", "pad_python", "\\")),
            FunctionUnit(PadContract("dagrt/codegen/fortran.py", "pad_fortran", "&"))]


LEVEL = "proof"
BOUNDED = {"quick": {"timeout_s": 60}, "thorough": {"timeout_s": 600}}
TRUSTED_BASE = [
    "A-LEX: lex_func(line) returns the token list of the line and every quoted string lies inside one token (KNOWN TO BE FALSE for shlex.split(posix=False) when a quote does not start a token: findings D19, D27, D28, found and fingerprinted by the bounded stand-in)",
    "z3 string theory for pad_python / pad_fortran (length of concatenation, blank-only padding as a regular-expression membership)",
    "str models used for CodeGenerator.get_code (Fortran): s.lstrip(' ') is the R of the unique split s = blanks + R with R not starting with a blank; n * s has length max(n, 0) * len(s) and is blank if s is; a // b is floor division for a concrete positive b; slicing, startswith, concatenation and len are z3's sequence operations",
    "functools.partial(f, **kw)(*a, **k) is f(*a, **kw, **k) (the module-level binding wrap_line = partial(wrap_line_base, pad_func=pad_X) is checked to have exactly this shape; a def is executed symbolically instead)",
]
ASSUMPTIONS = [
    "a line under construction is tracked by (length, first token index, token count): tokens are only ever appended whole (obligations at every `+=`), so the text of a line is indentation + tokens joined by single blanks",
    "the clause 'the wrapped Python line parses to the same syntax tree' and Fortran continuation rules are decided only by the bounded stand-in (ast.parse on wrapped vs unwrapped lines)",
    "tokens have length >= 0; level * indentation has a non-negative length",
]
EXPLANATION = ("wrap_line_base is executed symbolically over an abstract token list (any number of tokens, any lengths, any width, level and "
               "indentation): every token is proved to be placed exactly once, whole and in order (ghost token ranges of the emitted lines "
               "partition the input), and every emitted line holding two or more tokens is proved to fit the width after padding. "
               "pad_python and pad_fortran are proved with z3 strings to return line + blanks + one marker with length max(len+1, width), "
               "which is the contract wrap_line_base assumes of pad_func.")
