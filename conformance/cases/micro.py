"""Micro-programs for the CPython cross-check of the pyvc engine (tools/conformance.py).
Every function is run natively on the listed inputs and symbolically with the same inputs as constants; the engine must
prove `result == native result` (and must NOT prove a perturbed result)."""


def arith(a, b):
    x = a + b * 2 - (a - b)
    if x > 10 and not a == b:
        x = x - 10
    elif x < 0 or b > 100:
        x = -x
    return x


def chained(a, b, c):
    return 1 if a < b <= c else 0


def loop_sum(xs):
    s = 0
    for x in xs:
        if x < 0:
            continue
        if x > 100:
            break
        s += x
    return s


def loop_else(xs, t):
    for x in xs:
        if x == t:
            r = 1
            break
    else:
        r = 0
    return r


def while_count(n):
    i = 0
    acc = 0
    while i < n:
        acc = acc + i
        i += 1
    return acc


def alias_lists(xs):
    ys = xs
    ys.append(7)
    zs = list(xs)
    zs.append(9)
    return len(xs) * 100 + len(ys) * 10 + len(zs)


def pop_order(xs):
    a = xs.pop()
    b = xs.pop()
    return a * 10 + b


def set_ops(s, t):
    u = s | t
    i = s & t
    d = s - t
    u.add(42)
    d.discard(1)
    return (len_set(u), len_set(i), 1 if 42 in u else 0, 1 if 1 in d else 0)


def len_set(s):
    n = 0
    for _ in s:
        n += 1
    return n


def dict_ops(d, k):
    if k in d:
        v = d[k]
    else:
        v = -1
    d[k] = v + 1
    e = d.get(k + 1, 5)
    return v * 100 + d[k] * 10 + e


def try_flow(d, k):
    r = 0
    try:
        r = d[k]
        r += 1
    except KeyError:
        r = -5
    finally:
        r = r * 2
    return r


def nested_try(xs):
    out = 0
    try:
        try:
            out = xs.pop()
        except IndexError:
            out = -1
            raise ValueError()
        finally:
            out += 100
    except ValueError:
        out += 1000
    return out


def tuple_swap(a, b):
    a, b = b, a + b
    (c, d), e = (a, b), a - b
    return c * 100 + d * 10 + e


def bool_mix(a, b):
    x = a and b
    y = a or b
    z = not x
    return (1 if x else 0) + (2 if y else 0) + (4 if z else 0)


def none_flow(a):
    r = None
    if a > 0:
        r = a
    if r is None:
        return -1
    return r + 1


def early_return(xs):
    for x in xs:
        if x % 2 == 0:
            pass
    return 0


def setdefault_alias(d, k):
    s = d.setdefault(k, set())
    s.add(3)
    t = d.get(k, set())
    return 1 if 3 in t else 0


def augmented_set(s, t):
    u = s
    u |= t
    return 1 if (5 in s) == (5 in u) else 0
