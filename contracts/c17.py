"""C17 — a reported expression match is a genuine match (relative).

Functions under contract (read from /repo/dagrt/expression.py on every run):
  _ExtendedUnifier.map_call, .map_modulo_identity, .map_sum, .map_product, match
Relative to A-UNIF (soundness of pymbolic's UnidirectionalUnifier, through `self.rec` / the inherited mappers).
"""
import ast as pyast
import z3
from z3 import And, Or, Not, Implies, ForAll, Exists, Select, Store, If, IntSort, BoolSort

from pyvc.values import *  # noqa
from pyvc.contracts import FunctionContract, FunctionUnit, LemmaUnit
from .c08 import Expr, EXPR

PROP = "C17"
REL = "dagrt/expression.py"

Rec = z3.DeclareSort("UnificationRecord")
RecSet = z3.ArraySort(Rec, BoolSort())
U = z3.Function("unifies", Rec, Expr, Expr, BoolSort())     # applying the record to the template side gives the target side (modulo AC and identities)
ext = z3.Function("extends", Rec, Rec, BoolSort())          # r contains every equation of r0
EQV = z3.Function("same_value", Expr, Expr, BoolSort())     # equal under every valuation and interpretation of function symbols

NPAR = z3.Function("n_parameters", Expr, IntSort())
PAR = z3.Function("parameter", Expr, IntSort(), Expr)        # positional parameters followed by keyword values in key order
FUNC = z3.Function("function_of_call", Expr, Expr)
SAMECLS = z3.Function("same_node_class", Expr, Expr, BoolSort())
KWKEYS_EQ = z3.Function("same_keyword_names", Expr, Expr, BoolSort())
IS_KW = z3.Function("is_CallWithKwargs", Expr, BoolSort())
NPOS = z3.Function("n_positional", Expr, IntSort())
PARD = z3.Function("parameter_in_dict_order", Expr, IntSort(), Expr)   # keyword values in insertion order: not aligned by key


def rec_axioms():
    r, r0, r1 = z3.Consts("r r0 r1", Rec)
    a, b, c = z3.Consts("a b c", Expr)
    i = z3.Int("i")
    return [
        ForAll([r], ext(r, r)),
        ForAll([r, r0, r1], Implies(And(ext(r, r0), ext(r0, r1)), ext(r, r1))),
        # a unifier stays one when the record grows
        ForAll([r, r0, a, b], Implies(And(U(r0, a, b), ext(r, r0)), U(r, a, b))),
        # substitution is a homomorphism: a record that unifies function symbols and all aligned arguments of two
        # calls of the same class and shape unifies the calls
        ForAll([r, a, b], Implies(And(SAMECLS(a, b), NPAR(a) == NPAR(b), U(r, FUNC(a), FUNC(b)),
                                      ForAll([i], Implies(And(0 <= i, i < NPAR(a)), U(r, PAR(a, i), PAR(b, i))))),
                                  U(r, a, b))),
        # unification is modulo value equality of the target
        ForAll([r, a, b, c], Implies(And(U(r, a, b), EQV(b, c)), U(r, a, c))),
    ]


class VRecs(V):
    """a list of unification records, as the set of its members (None = the initial 'no constraint yet')"""
    ty = None

    def __init__(self, t):
        self.t = t

    def fresh_like(self, ctx, base):
        return VRecs(z3.Const(fresh_name(base), RecSet))

    def truth(self, it):
        res = z3.Bool(fresh_name("nonempty"))
        w = z3.Const(fresh_name("some_record"), Rec)
        e = z3.Const("e", Rec)
        it.ctx.assume(Implies(res, Select(self.t, w)))
        it.ctx.assume(Implies(Not(res), ForAll([e], Not(Select(self.t, e)))))
        return res


def unify_step(ctx, inp, e, o):
    """A-UNIF for self.rec(e, o, urecs) and the inherited mappers: every returned record extends an input
    record and unifies e with o"""
    out = z3.Const(fresh_name("urecs"), RecSet)
    r = z3.Const("r", Rec)
    src = z3.Function(fresh_name("from"), Rec, Rec)
    ctx.assume(ForAll([r], Implies(Select(out, r), And(Select(inp, src(r)), ext(r, src(r)), U(r, e, o)))))
    return VRecs(out)


class UnifierContract(FunctionContract):
    prop = PROP
    relpath = REL
    axioms = property(lambda self: tuple(rec_axioms()))
    prune_quantified = False

    def __init__(self):
        self.e = z3.Const("expr", Expr)
        self.o = z3.Const("other", Expr)
        self.inp = z3.Const("urecs_in", RecSet)

    def sound(self, st, result):
        """the property's clause for one unifier method"""
        r = z3.Const("r", Rec)
        r0 = z3.Const("r0", Rec)
        if isinstance(result, VRecs):
            t = result.t
        else:
            return [("returns-a-record-list", z3.BoolVal(False))]
        return [("every-returned-record-unifies-the-template-with-the-target",
                 ForAll([r], Implies(Select(t, r), U(r, self.e, self.o)))),
                ("every-returned-record-extends-an-input-record(keeps-earlier-bindings)",
                 ForAll([r], Implies(Select(t, r), Exists([r0], And(Select(self.inp, r0), ext(r, r0))))))]

    def list_literal(self, ctx, it, e):
        if e.elts:
            raise Unsupported("list literal")
        return VRecs(z3.K(Rec, z3.BoolVal(False)))

    def ensures(self, st):
        return self.sound(st, st.result)


class VCall(V):
    """a Call / CallWithKwargs node; parameters are indexed positional-then-keyword (key order)"""
    ty = None

    def __init__(self, t):
        self.t = t


class VParams(V):
    ty = None

    def __init__(self, call, n, full, by_key=True):
        self.call, self.n, self.full = call, n, full    # full: keyword values appended
        self.by_key = by_key                            # keyword values are in key order (aligned between two calls)

    def length(self, it):
        return VInt(self.n)

    def at(self, i):
        # keyword values that were not sorted by key are only known by their position in the dict
        return PAR(self.call, i) if self.by_key else If(i < NPOS(self.call), PAR(self.call, i), PARD(self.call, i))

    def binop(self, it, op_, other, node):
        # expr_parameters += tuple(values sorted by key)
        if op_ is pyast.Add and isinstance(other, VKwVals) and other.call.eq(self.call):
            return VParams(self.call, NPAR(self.call), True, other.by_key)
        raise Unsupported("parameter op")


class VKwVals(V):
    ty = None

    def __init__(self, call, by_key=True):
        self.call = call
        self.by_key = by_key


class VZip(V):
    ty = None

    def __init__(self, a, b):
        self.a, self.b = a, b

    def for_loop(self, it, s, k, spec, ex):
        ctx = it.ctx
        a, b = self.a, self.b
        ex["$i"] = VInt(0)
        n = a.n

        def guard_fn():
            i = ex["$i"].t
            ctx.assume(And(0 <= i, i <= n))
            return i < n

        def prologue():
            i = ex["$i"].t
            it.assign(s.target, VTuple([EXPR.wrap(a.at(i)), EXPR.wrap(b.at(i))]))

        it.run_cut_loop(s, k, spec, guard_fn, prologue,
                        lambda: ex.__setitem__("$i", VInt(z3.simplify(ex["$i"].t + 1))), lambda: None)


class MapCall(UnifierContract):
    qualname = "_ExtendedUnifier.map_call"

    def params(self, ctx):
        ctx.env["self"] = VObj(TObj("Unifier", {}), {})
        ctx.env["expr"] = VCall(self.e)
        ctx.env["other"] = VCall(self.o)
        ctx.env["urecs"] = VRecs(self.inp)

    def requires(self, st):
        return [("shapes", And(NPOS(self.e) >= 0, NPOS(self.o) >= 0, NPAR(self.e) >= NPOS(self.e), NPAR(self.o) >= NPOS(self.o),
                               Implies(Not(IS_KW(self.e)), NPAR(self.e) == NPOS(self.e)),
                               Implies(Not(IS_KW(self.o)), NPAR(self.o) == NPOS(self.o)))),
                # A-SORT: with equal keyword-name sets the key-sorted value lists are aligned and equally long
                ("aligned-keywords", Implies(KWKEYS_EQ(self.e, self.o), NPAR(self.e) - NPOS(self.e) == NPAR(self.o) - NPOS(self.o))),
                ("class", Implies(SAMECLS(self.e, self.o), IS_KW(self.e) == IS_KW(self.o)))]

    def getattr_hook(self, ctx, it, obj, name):
        o = ctx.deref(obj)
        if isinstance(o, VCall):
            if name == "parameters":
                return VParams(o.t, NPOS(o.t), False)
            if name == "function":
                return EXPR.wrap(FUNC(o.t))
            if name == "kw_parameters":
                return VKw(o.t)
        return None

    def isinstance_hook(self, ctx, it, obj, names):
        if isinstance(obj, VCall) and names == ["type(other)"]:
            return VBool(SAMECLS(self.e, self.o))
        if isinstance(obj, VCall) and names == ["CallWithKwargs"]:
            return VBool(IS_KW(obj.t))
        return None

    def equal_hook(self, ctx, it, a, b, identity):
        if isinstance(a, VKeySet) and isinstance(b, VKeySet):
            return KWKEYS_EQ(a.call, b.call)
        return None

    def comp_kwvals(self, ctx, it, e):
        src = pyast.unparse(e)
        call = self.e if "expr.kw_parameters" in src else self.o
        # (val for key, val in sorted(<call>.kw_parameters.items(), key=itemgetter(0))): values in key order
        gen = e.generators[0] if len(e.generators) == 1 else None
        by_key = False
        if gen is not None and not gen.ifs and isinstance(gen.iter, pyast.Call) \
                and pyast.unparse(gen.iter.func) == "sorted" and len(gen.iter.args) == 1 \
                and pyast.unparse(gen.iter.args[0]).endswith(".kw_parameters.items()") \
                and [(k.arg, pyast.unparse(k.value)) for k in gen.iter.keywords] in ([("key", "itemgetter(0)")], []) \
                and isinstance(gen.target, pyast.Tuple) and len(gen.target.elts) == 2 \
                and pyast.unparse(e.elt) == pyast.unparse(gen.target.elts[1]):
            by_key = True
        return VKwVals(call, by_key)

    @property
    def comprehensions(self):
        from .c16 import _comprehensions_of
        return {pyast.unparse(c): self.comp_kwvals for c in _comprehensions_of(REL, self.qualname)}

    def m_rec(self, ctx, it, args, kw):
        e, o, recs = [ctx.deref(a) for a in args]
        return unify_step(ctx, recs.t, e.t, o.t)

    calls = property(lambda self: {"self.rec": self.m_rec})
    names = property(lambda self: {
        "type": VFunc("type", lambda ctx, it, a, k: VPy("<type>")),
        "set": VFunc("set", lambda ctx, it, a, k: VKeySet(ctx.deref(a[0]).call)),
        "tuple": VFunc("tuple", lambda ctx, it, a, k: a[0]),
        "zip": VFunc("zip", lambda ctx, it, a, k: VZip(ctx.deref(a[0]), ctx.deref(a[1]))),
        "CallWithKwargs": VClass("CallWithKwargs"), "itemgetter": VFunc("itemgetter", lambda ctx, it, a, k: VPy("<key>")),
        "sorted": VFunc("sorted", lambda ctx, it, a, k: a[0])})

    def inv(self, s):
        r, r0 = z3.Consts("r r0", Rec)
        i, j = z3.Ints("i j")
        t = s.urecs.t
        k = s.loop(0)["$i"].t
        return [("records-unify-every-processed-argument-pair",
                 ForAll([r, j], Implies(And(Select(t, r), 0 <= j, j < k), U(r, PAR(self.e, j), PAR(self.o, j))))),
                ("records-extend-an-input-record",
                 ForAll([r], Implies(Select(t, r), Exists([r0], And(Select(self.inp, r0), ext(r, r0))))))]

    loops = property(lambda self: {0: dict(shape="for (expr_param, other_param) in zip(expr_parameters, other_parameters)",
                                           inv=self.inv)})


class VKw(V):
    ty = None

    def __init__(self, call):
        self.call = call

    methods = {}


VKw.methods = {"keys": lambda ctx, it, obj, a, k: ctx.deref(obj), "items": lambda ctx, it, obj, a, k: ctx.deref(obj),
               # .values(): the keyword values in dict (insertion) order
               "values": lambda ctx, it, obj, a, k: VKwVals(ctx.deref(obj).call, False)}


class VKeySet(V):
    ty = None

    def __init__(self, call):
        self.call = call


# ---- map_modulo_identity ------------------------------------------------------------------------------
IDOP = z3.Function("node_of_same_class_with_identity_and", Expr, Expr, Expr, Expr)   # type(expr)((id_element, other))
IS_ID = z3.Function("is_identity_element_of_the_class_of", Expr, Expr, BoolSort())


class ModuloIdentity(UnifierContract):
    qualname = "_ExtendedUnifier.map_modulo_identity"

    def __init__(self):
        super().__init__()
        self.ide = z3.Const("id_element", Expr)

    def params(self, ctx):
        ctx.env["self"] = VObj(TObj("Unifier", {}), {"lhs_mapping_candidates": VPy("<names>"),
                                                   "unification_record_from_equation": VFunc("urec", self.m_urec)})
        ctx.env["expr"] = VNodeM(self.e)
        ctx.env["other"] = VNodeM(self.o)
        ctx.env["urecs"] = VRecs(self.inp)
        ctx.env["mapper"] = VFunc("mapper", self.m_mapper)
        ctx.env["id_element"] = EXPR.wrap(self.ide)

    def requires(self, st):
        x = z3.Const("x", Expr)
        return [("id_element-is-the-identity-of-the-operator",
                 IS_ID(self.ide, self.e)),
                ("op(identity, x)-has-the-value-of-x",
                 ForAll([x], Implies(IS_ID(self.ide, self.e), EQV(IDOP(self.e, self.ide, x), x)))),
                ("value-equality-is-symmetric", ForAll([x], EQV(x, x)))]

    def m_mapper(self, ctx, it, args, kw):
        e, o, recs = [ctx.deref(a) for a in args]
        return unify_step(ctx, recs.t, e.e if isinstance(e, VNodeM) else e.t, o.e if isinstance(o, VNodeM) else o.t)

    def m_urec(self, ctx, it, args, kw):
        return VPy("<record variable := id>")

    def m_unify_many(self, ctx, it, args, kw):
        """pymbolic unify_many(urecs, urec): records extending both (so in particular an input record)"""
        recs = ctx.deref(args[0])
        out = z3.Const(fresh_name("many"), RecSet)
        r = z3.Const("r", Rec)
        src = z3.Function(fresh_name("from"), Rec, Rec)
        ctx.assume(ForAll([r], Implies(Select(out, r), And(Select(recs.t, src(r)), ext(r, src(r))))))
        return VRecs(out)

    def m_type(self, ctx, it, args, kw):
        node = ctx.deref(args[0])

        def construct(ctx2, it2, a, k):
            tup = ctx2.deref(a[0])
            x, y = [ctx2.deref(v) for v in tup.items]
            term = lambda v: v.e if isinstance(v, VNodeM) else v.t   # noqa
            return VNodeM(IDOP(node.e, term(x), term(y)))
        return VClass("type(expr)", construct)

    names = property(lambda self: {"type": VFunc("type", self.m_type), "unify_many": VFunc("unify_many", self.m_unify_many),
                                   "hasattr": VFunc("hasattr", lambda ctx, it, a, k: VBool(z3.Bool(fresh_name("has_children")))),
                                   "Variable": VClass("Variable")})

    def getattr_hook(self, ctx, it, obj, name):
        o = ctx.deref(obj)
        if isinstance(o, VNodeM) and name == "children":
            return VChildrenM()
        return None

    def comp_variables(self, ctx, it, e):
        return VVarSet()

    @property
    def comprehensions(self):
        from .c16 import _comprehensions_of
        return {pyast.unparse(c): self.comp_variables for c in _comprehensions_of(REL, self.qualname)}

    def inv(self, s):
        r, r0 = z3.Consts("r r0", Rec)
        t = s.new_urecs.t
        return [("collected-records-unify-the-template-with-the-target", ForAll([r], Implies(Select(t, r), U(r, self.e, self.o)))),
                ("collected-records-extend-an-input-record",
                 ForAll([r], Implies(Select(t, r), Exists([r0], And(Select(self.inp, r0), ext(r, r0))))))]

    loops = property(lambda self: {0: dict(shape="for variable in variables", inv=self.inv)})


class VNodeM(V):
    ty = None

    def __init__(self, e):
        self.e = e


class VChildrenM(V):
    ty = None

    def length(self, it):
        return VInt(z3.Int(fresh_name("n_children")))


class VVarSet(V):
    """the candidate variables among the two children: iterated in arbitrary order"""
    ty = None

    def for_loop(self, it, s, k, spec, ex):
        ctx = it.ctx
        ex["$left"] = VBoolish(z3.Bool(fresh_name("more_candidates")))
        it.run_cut_loop(s, k, spec, lambda: z3.Bool(fresh_name("another_candidate")),
                        lambda: it.assign(s.target, EXPR.wrap(z3.Const(fresh_name("candidate"), Expr))),
                        lambda: None, lambda: None)


class VBoolish(V):
    ty = None

    def __init__(self, t):
        self.t = t

    def fresh_like(self, ctx, base):
        return VBoolish(z3.Bool(fresh_name(base)))


def _recs_extend(ctx, it, obj, args, kw):
    o = ctx.deref(obj)
    other = ctx.deref(args[0])
    a, b = z3.Bools("a b")
    ctx.store(obj, VRecs(z3.Map(z3.Or(a, b).decl(), o.t, other.t)))
    return NONE


VRecs.methods = {"extend": _recs_extend}


class ModIdList(ModuloIdentity):
    pass


def _list_lit(self, ctx, it, e):
    if e.elts:
        raise Unsupported("list literal")
    return ctx.alloc(VRecs(z3.K(Rec, z3.BoolVal(False))))


ModuloIdentity.list_literal = _list_lit


class SumProductUnify(FunctionContract):
    """map_sum / map_product hand map_modulo_identity the inherited mapper of the same operator and its identity"""
    prop = PROP
    relpath = REL

    def __init__(self, which, ident):
        self.qualname = "_ExtendedUnifier." + which
        self.which, self.ident = which, ident

    def params(self, ctx):
        ctx.env["self"] = VObj(TObj("Unifier", {}), {})
        ctx.env["expr"] = VPy("<expr>")
        ctx.env["other"] = VPy("<other>")
        ctx.env["urecs"] = VPy("<urecs>")
        ctx.ghost["ok"] = z3.BoolVal(False)

    def m_modid(self, ctx, it, args, kw):
        mapper, ide = ctx.deref(args[3]), ctx.deref(args[4])
        ctx.ghost["ok"] = z3.BoolVal(isinstance(mapper, VPy) and mapper.py == "super()." + self.which
                                     and isinstance(ide, VInt) and z3.is_int_value(ide.t) and ide.t.as_long() == self.ident
                                     and all(isinstance(ctx.deref(a), VPy) for a in args[:3]))
        return VPy("<records>")

    attr_exprs = property(lambda self: {"super().map_sum": lambda ctx, it: VPy("super().map_sum"),
                                        "super().map_product": lambda ctx, it: VPy("super().map_product")})
    calls = property(lambda self: {"self.map_modulo_identity": self.m_modid})

    def ensures(self, st):
        return [("same-operator-and-its-identity-element(0 for sums, 1 for products)", st.g("ok"))]


def units():
    from pyvc.contracts import ClassShapeUnit
    return [ClassShapeUnit("dagrt/expression.py", "_ExtendedUnifier",
                           {"map_call", "map_call_with_kwargs", "map_modulo_identity", "map_sum", "map_product"},
                           ["UnidirectionalUnifier"], "A-UNIF (pymbolic's unifier is used as it is for every other node class)"),
            FunctionUnit(MapCall()), FunctionUnit(ModuloIdentity()),
            FunctionUnit(SumProductUnify("map_sum", 0)), FunctionUnit(SumProductUnify("map_product", 1))] \
        + __import__("contracts.c17match", fromlist=["units"]).units()


LEVEL = "proof"
BOUNDED = {"quick": {"timeout_s": 120}, "thorough": {"timeout_s": 900}}
TRUSTED_BASE = [
    "A-UNIF: pymbolic UnidirectionalUnifier (self.rec and the inherited map_sum / map_product, unify_many): every returned record extends an input record and unifies the two expressions it was given, binding only lhs_mapping_candidates",
    "substitution is a homomorphism on calls; unification is modulo value equality of the target; op(identity, x) has the value of x",
    "A-SORT: two keyword dictionaries with the same key set, sorted by key, are aligned",
]
ASSUMPTIONS = [
    "records are abstract (an uninterpreted sort with `unifies` and `extends`); 'same value for all values of the remaining variables and all interpretations of function symbols' is the meaning of `unifies`, not derived from a term model",
    "match() is under contract (contracts/c17match.py): candidates = declared free names (or all names of the template minus the bound ones), the unifier runs on "
    "flatten(template) / flatten(expression) from nothing or from one record holding exactly the pre_match equations (names checked to be candidates), the result is "
    "the equation set of a record the unifier returned, no record => ValueError; relative to A-UNIF for that top-level call and A-FLATTEN (pymbolic.flatten keeps the "
    "value); parse() is external (C19)",
]
EXPLANATION = ("_ExtendedUnifier.map_call is proved to return only records that unify the function symbols and every aligned argument pair "
               "(hence, by homomorphism, the calls) and that extend an input record; class, arity and keyword-name mismatches return no "
               "record. map_modulo_identity is proved sound because the target is replaced by op(identity, target), which has the same "
               "value; map_sum / map_product are proved to pass the inherited mapper of the same operator with identity 0 / 1.")
