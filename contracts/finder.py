"""SymbolKindFinder.__call__ — the driver of kind inference reaches a common fixed point (C14, C09).

Functions under contract (read from /repo/dagrt/data.py on every run):
  SymbolKindFinder.__call__, SymbolKindTable.reset_change_flag, SymbolKindTable.is_changed

What is proved about the driver (for every number of phases / statements, every outcome of every inference
attempt and every presentation order, which is simply the order of the abstract work list):
  when __call__ returns, every statement of every phase has been processed *successfully* in a sweep during
  which the table did not change: the returned table is a common fixed point of all statement transfer steps.
That is hypothesis `hfix` of L-CHAOTIC (lemmas/LChaotic.lean), which turns "some fair chaotic iteration of
inflationary monotone steps reached a common fixed point" into "the result is the least common fixed point,
whatever the order".  Relative to: SymbolKindTable.set's contract (C14: flag set iff the table changed).

Abstraction (stated in evidence): a work list is the multiset of its items (length + occurrence counts; a list of
length 0 contains nothing); an item is one (phase name, statement) occurrence; the table is represented by a
version counter that `set` increments exactly when it changes the table (its proved postcondition).
"""
import ast as pyast
import z3
from z3 import And, Or, Not, Implies, ForAll, Select, Store, If, IntSort, BoolSort

from pyvc.values import *  # noqa
from pyvc.contracts import FunctionContract, FunctionUnit

REL = "dagrt/data.py"

Item = z3.DeclareSort("WorkItem")                       # one (phase name, statement) occurrence
iphase = z3.Function("phase_index_of", Item, IntSort())
ITEMCNT = z3.ArraySort(Item, IntSort())
is_assign = z3.Function("is_Assign", Item, BoolSort())
is_call = z3.Function("is_AssignFunctionCall", Item, BoolSort())
is_abase = z3.Function("is_AssignmentBase", Item, BoolSort())
has_sub = z3.Function("has_assignee_subscript", Item, BoolSort())


class VBag(V):
    """a list of work items as a multiset: n = len, cnt[x] = number of occurrences of x"""
    ty = None

    def __init__(self, n, cnt):
        self.n, self.cnt = n, cnt

    def fresh_like(self, ctx, base):
        b = VBag(z3.Int(fresh_name(base + "_n")), z3.Const(fresh_name(base + "_cnt"), ITEMCNT))
        for f in b.wf():
            ctx.assume(f)
        return b

    def wf(self):
        x = z3.Const("x", Item)
        return [self.n >= 0, ForAll([x], Select(self.cnt, x) >= 0),
                Implies(self.n == 0, ForAll([x], Select(self.cnt, x) == 0))]

    def truth(self, it):
        return self.n > 0

    def for_loop(self, it, s, k, spec, ex):
        """iteration over the list: some items of it, in some order (over-approximation)"""
        ctx = it.ctx
        bag = self

        def guard_fn():
            return z3.Bool(fresh_name("more_items"))

        def prologue():
            x = z3.Const(fresh_name("item"), Item)
            ctx.assume(Select(bag.cnt, x) >= 1)
            it.assign(s.target, item_tuple(x))

        it.run_cut_loop(s, k, spec, guard_fn, prologue, lambda: None, lambda: None)


EMPTY_CNT = z3.K(Item, z3.IntVal(0))


class VStmt(V):
    """the statement of a work item"""
    ty = None

    def __init__(self, x):
        self.x = x

    def fresh_like(self, ctx, base):
        return VStmt(z3.Const(fresh_name(base), Item))


class VPhaseName(V):
    ty = None

    def __init__(self, of_item=None, index=None):
        self.of_item, self.index = of_item, index

    def fresh_like(self, ctx, base):
        return VPhaseName(index=z3.Int(fresh_name(base)))

    def idx(self):
        return iphase(self.of_item) if self.of_item is not None else self.index


def item_tuple(x):
    return VTuple([VPhaseName(of_item=x), VStmt(x)])


class VPhaseRef(V):
    """phases[j] (or list(phases[j])): the statements of phase j"""
    ty = None

    def __init__(self, j):
        self.j = j

    def fresh_like(self, ctx, base):
        return VPhaseRef(z3.Int(fresh_name(base)))

    def for_loop(self, it, s, k, spec, ex):
        ctx = it.ctx
        j = self.j

        def guard_fn():
            return z3.Bool(fresh_name("more_statements"))

        def prologue():
            x = z3.Const(fresh_name("item"), Item)
            ctx.assume(iphase(x) == j)
            it.assign(s.target, VStmt(x))

        it.run_cut_loop(s, k, spec, guard_fn, prologue, lambda: None, lambda: None)


class VPhaseList(V):
    """a list whose element i is phase i"""
    ty = None

    def __init__(self, n):
        self.n = n

    def fresh_like(self, ctx, base):
        n = z3.Int(fresh_name(base + "_n"))
        ctx.assume(n >= 0)
        return VPhaseList(n)

    def for_loop(self, it, s, k, spec, ex):
        ctx = it.ctx
        n = self.n
        ex["$i"] = VInt(0)

        def guard_fn():
            i = ex["$i"].t
            ctx.assume(And(0 <= i, i <= n))
            return i < n

        it.run_cut_loop(s, k, spec, guard_fn, lambda: it.assign(s.target, VPhaseRef(ex["$i"].t)),
                        lambda: ex.__setitem__("$i", VInt(z3.simplify(ex["$i"].t + 1))), lambda: None)


class VNameList(V):
    ty = None

    def __init__(self, n):
        self.n = n


class VZipNP(V):
    """zip(names, phases): pairs (names[i], phases[i]) for i < min(len(names), len(phases))"""
    ty = None

    def __init__(self, n):
        self.n = n

    def for_loop(self, it, s, k, spec, ex):
        ctx = it.ctx
        n = self.n
        ex["$i"] = VInt(0)

        def guard_fn():
            i = ex["$i"].t
            ctx.assume(And(0 <= i, i <= n))
            return i < n

        def prologue():
            i = ex["$i"].t
            it.assign(s.target, VTuple([VPhaseName(index=i), VPhaseRef(i)]))

        it.run_cut_loop(s, k, spec, guard_fn, prologue,
                        lambda: ex.__setitem__("$i", VInt(z3.simplify(ex["$i"].t + 1))), lambda: None)


class VOpaqueIter(V):
    """an iterable of unknown length whose elements are opaque (forced_kinds; zip(assignees, kinds); stmt.loops)"""
    ty = None

    def __init__(self, width, maybe_none=None):
        self.width, self.maybe_none = width, maybe_none

    def is_none(self):
        return self.maybe_none if self.maybe_none is not None else z3.BoolVal(False)

    def for_loop(self, it, s, k, spec, ex):
        w = self.width

        def prologue():
            it.assign(s.target, VTuple([VPy("<opaque>") for _ in range(w)]) if w > 1 else VPy("<opaque>"))

        it.run_cut_loop(s, k, spec, lambda: z3.Bool(fresh_name("more")), prologue, lambda: None, lambda: None)


class VKim(V):
    ty = None


class VRegistry(V):
    ty = None

    def getitem(self, it, idx, node):
        if not it.ctx.branch(z3.Bool(fresh_name("function_is_registered")), "registry"):
            it.ctx.raise_("KeyError")
        return VPy("<function>")


TABLE = TObj("SymbolKindTable", {})


class FinderLoop(FunctionContract):
    prop = "C14"
    relpath = REL
    qualname = "SymbolKindFinder.__call__"
    any_raise_ok = True          # the property speaks about successful inference only
    prune_quantified = False
    exc_hierarchy = {"UnableToInferKind": ["Exception"], "TODO": ["Exception"]}

    def __init__(self):
        self.NN = z3.Int("len_names")
        self.NP = z3.Int("len_phases")

    # number of (name, phase) pairs the driver works on
    def NPH(self):
        return If(self.NN < self.NP, self.NN, self.NP)

    def ALL(self, x):
        return And(0 <= iphase(x), iphase(x) < self.NPH())

    # ---- parameters and ghosts ----------------------------------------------------------------
    def params(self, ctx):
        ctx.assume(And(self.NN >= 0, self.NP >= 0))
        ctx.env["self"] = VObj(TObj("SymbolKindFinder", {}), {"function_registry": VRegistry()})
        ctx.env["names"] = VNameList(self.NN)
        ctx.env["phases"] = VPhaseList(self.NP)
        ctx.env["forced_kinds"] = VOpaqueIter(3, maybe_none=z3.Bool("forced_kinds_is_None"))

    def ghosts(self, ctx):
        ctx.ghost["done"] = z3.K(Item, z3.BoolVal(False))      # processed successfully since the last reset
        ctx.ghost["okv"] = z3.K(Item, z3.IntVal(-1))           # table version it was processed against, unchanged
        ctx.ghost["cur"] = z3.Const("no_item_yet", Item)
        ctx.ghost["vstart"] = z3.IntVal(-1)
        ctx.ghost["ver0"] = z3.IntVal(0)                       # table version at the last reset_change_flag()

    # ---- the table --------------------------------------------------------------------------
    def new_table(self, ctx, it, args, kw):
        return ctx.alloc(VObj(TABLE, {"_changed": VBool(z3.BoolVal(False)), "ver": VInt(z3.IntVal(0))}))

    def tbl(self, ctx):
        return ctx.env["result"]

    def m_set(self, ctx, it, args, kw):
        """SymbolKindTable.set by contract (C14): the flag is raised exactly when the table changes"""
        ref = self.tbl(ctx)
        o = ctx.deref(ref)
        tc = z3.Bool(fresh_name("table_changes"))
        ver = ctx.deref(o.fields["ver"]).t
        ch = ctx.deref(o.fields["_changed"]).t
        ctx.store(ref, VObj(o.ty, {"_changed": VBool(Or(ch, tc)), "ver": VInt(ver + If(tc, 1, 0))}))
        return NONE

    def m_reset(self, ctx, it, args, kw):
        ref = self.tbl(ctx)
        o = ctx.deref(ref)
        ctx.store(ref, VObj(o.ty, {"_changed": VBool(z3.BoolVal(False)), "ver": o.fields["ver"]}))
        # a new sweep starts: nothing has been processed against the table as it is from now on
        ctx.ghost["ver0"] = ctx.deref(o.fields["ver"]).t
        ctx.ghost["done"] = z3.K(Item, z3.BoolVal(False))
        return NONE

    def m_is_changed(self, ctx, it, args, kw):
        return VBool(ctx.deref(ctx.deref(self.tbl(ctx)).fields["_changed"]).t)

    # ---- inference attempts -----------------------------------------------------------------
    def m_kim(self, ctx, it, args, kw):
        """kim(expr) / kim.map_generic_call(...): returns kinds or raises UnableToInferKind; reads the table only"""
        if not ctx.branch(z3.Bool(fresh_name("inference_succeeds")), "kim"):
            if getattr(ctx, "iter_flags", None) is not None:
                ctx.iter_flags["failed"] = True
            ctx.raise_("UnableToInferKind")
        return VPy("<kinds>")

    # ---- work lists ---------------------------------------------------------------------------
    def _bag(self, ctx, name):
        ref = ctx.env[name]
        b = ctx.deref(ref)
        if not isinstance(b, VBag):
            raise Unsupported("%s is not a work list" % name)
        return ref, b

    def m_extend(self, name):
        def f(ctx, it, args, kw):
            ref, b = self._bag(ctx, name)
            src = ctx.deref(args[0])
            if not isinstance(src, VItemsOfPhase):
                raise Unsupported("extend with %r" % (src,))
            x = z3.Const("x", Item)
            n1 = z3.Int(fresh_name("ext_n"))
            c1 = z3.Const(fresh_name("ext_cnt"), ITEMCNT)
            ctx.assume(n1 >= b.n)
            ctx.assume(ForAll([x], Select(c1, x) == Select(b.cnt, x) + If(iphase(x) == src.j, 1, 0)))
            nb = VBag(n1, c1)
            ctx.assume(Implies(n1 == 0, ForAll([x], Select(c1, x) == 0)))
            ctx.store(ref, nb)
            return NONE
        return f

    def m_append(self, name):
        def f(ctx, it, args, kw):
            ref, b = self._bag(ctx, name)
            t = ctx.deref(args[0])
            if not (isinstance(t, VTuple) and len(t.items) == 2 and isinstance(t.items[1], VStmt)
                    and isinstance(t.items[0], VPhaseName)):
                raise Unsupported("append of %r" % (t,))
            x = t.items[1].x
            ctx.oblige("deferred-item-keeps-its-phase-name@L%s" % ctx.cur_line, t.items[0].idx() == iphase(x))
            ctx.store(ref, VBag(b.n + 1, Store(b.cnt, x, Select(b.cnt, x) + 1)))
            return NONE
        return f

    def m_pop(self, name):
        def f(ctx, it, args, kw):
            if args:
                raise Unsupported("pop with an index")
            ref, b = self._bag(ctx, name)
            if not ctx.branch(b.n > 0, "pop"):
                ctx.raise_("IndexError")
            x = z3.Const(fresh_name("popped"), Item)
            ctx.assume(Select(b.cnt, x) >= 1)
            nb = VBag(b.n - 1, Store(b.cnt, x, Select(b.cnt, x) - 1))
            y = z3.Const("y", Item)
            ctx.assume(Implies(nb.n == 0, ForAll([y], Select(nb.cnt, y) == 0)))
            ctx.store(ref, nb)
            # ghost: the item now being processed and the table version it starts from
            fl = getattr(ctx, "iter_flags", None)
            if fl is None or fl["popped"]:
                raise Unsupported("a work item is taken outside the work loop or twice in one iteration")
            fl["popped"] = True
            ctx.ghost["cur"] = x
            ctx.ghost["vstart"] = ctx.deref(ctx.deref(self.tbl(ctx)).fields["ver"]).t
            return item_tuple(x)
        return f

    def list_literal(self, ctx, it, e):
        if e.elts:
            raise Unsupported("list literal")
        tgt = self._literal_targets().get((e.lineno, e.col_offset))
        if tgt == "expanded_phases":
            return ctx.alloc(VPhaseList(z3.IntVal(0)))
        if tgt in ("stmt_queue", "stmt_queue_push_buffer"):
            return ctx.alloc(VBag(z3.IntVal(0), EMPTY_CNT))
        raise Unsupported("L%s: empty list assigned to %r" % (e.lineno, tgt))

    def _literal_targets(self):
        if not hasattr(self, "_lt"):
            self._lt = {}
            for n in pyast.walk(self.load().node):
                if isinstance(n, pyast.Assign) and isinstance(n.value, pyast.List) and len(n.targets) == 1 \
                        and isinstance(n.targets[0], pyast.Name):
                    self._lt[(n.value.lineno, n.value.col_offset)] = n.targets[0].id
        return self._lt

    def m_expanded_append(self, ctx, it, args, kw):
        ref = ctx.env["expanded_phases"]
        l = ctx.deref(ref)
        p = ctx.deref(args[0])
        if not (isinstance(l, VPhaseList) and isinstance(p, VPhaseRef)):
            raise Unsupported("expanded_phases.append(%r)" % (p,))
        ctx.oblige("expanded-phases-keep-their-order@L%s" % ctx.cur_line, p.j == l.n)
        ctx.store(ref, VPhaseList(l.n + 1))
        return NONE

    def m_zip(self, ctx, it, args, kw):
        a, b = [ctx.deref(x) for x in args]
        if isinstance(a, VNameList) and isinstance(b, VPhaseList):
            return VZipNP(If(a.n < b.n, a.n, b.n))
        return VOpaqueIter(2)

    def comp_items(self, ctx, it, e):
        # ((name, stmt) for stmt in phase): every statement of the phase, paired with the phase's name
        gen = e.generators[0]
        ok = (len(e.generators) == 1 and not gen.ifs and isinstance(e.elt, pyast.Tuple) and len(e.elt.elts) == 2
              and pyast.unparse(e.elt.elts[1]) == pyast.unparse(gen.target))
        if not ok:
            raise Unsupported("work-list comprehension %s" % pyast.unparse(e))
        ph = ctx.deref(it.eval(gen.iter))
        nm = ctx.deref(it.eval(e.elt.elts[0]))
        if not (isinstance(ph, VPhaseRef) and isinstance(nm, VPhaseName)):
            raise Unsupported("work-list comprehension over %r" % (ph,))
        ctx.oblige("items-are-paired-with-the-name-of-their-phase@L%s" % e.lineno, nm.idx() == ph.j)
        return VItemsOfPhase(ph.j)

    @property
    def comprehensions(self):
        from .c16 import _comprehensions_of
        return {pyast.unparse(c): self.comp_items for c in _comprehensions_of(REL, self.qualname)}

    # ---- statements -----------------------------------------------------------------------------
    def isinstance_hook(self, ctx, it, obj, names):
        if isinstance(obj, VStmt):
            tests = {"lang.Assign": is_assign, "lang.AssignFunctionCall": is_call, "lang.AssignmentBase": is_abase}
            if len(names) == 1 and names[0] in tests:
                # Assign and AssignFunctionCall are AssignmentBase
                ctx.assume(Implies(Or(is_assign(obj.x), is_call(obj.x)), is_abase(obj.x)))
                ctx.assume(Not(And(is_assign(obj.x), is_call(obj.x))))
                return VBool(tests[names[0]](obj.x))
        return None

    def getattr_hook(self, ctx, it, obj, name):
        o = ctx.deref(obj)
        if isinstance(o, VStmt):
            if name == "loops":
                return VOpaqueIter(3)
            if name == "assignee_subscript":
                return VBool(has_sub(o.x))
            if name in ("expression", "assignee", "function_id", "assignees"):
                return VPy("<%s>" % name)
        if isinstance(o, VPy) and name in ("result_names",):
            return VPy("<names>")
        if isinstance(o, VObj) and o.ty is TABLE and name in ("global_table", "per_phase_table"):
            return VPy("<table>")
        return None

    call_modifies = {"result.set": ["result"], "result.reset_change_flag": ["result"],
                     "stmt_queue.extend": ["stmt_queue"], "stmt_queue_push_buffer.extend": ["stmt_queue_push_buffer"]}

    nested = property(lambda self: {"make_kim": lambda ctx, it, a, k: VKim()})

    @property
    def calls(self):
        opaque = lambda ctx, it, a, k: VPy("<opaque>")   # noqa
        d = {
            "SymbolKindTable": self.new_table,
            "result.set": self.m_set,
            "result.reset_change_flag": self.m_reset,
            "result.is_changed": self.m_is_changed,
            "kim": self.m_kim,
            "kim.map_generic_call": self.m_kim,
            "expanded_phases.append": self.m_expanded_append,
            "zip": self.m_zip,
            "list": lambda ctx, it, a, k: a[0],
            "print": lambda ctx, it, a, k: NONE,
            "str": opaque, "flatten": opaque, "_get_arg_dict_from_call_stmt": opaque, "Integer": opaque,
            "len": lambda ctx, it, a, k: VInt(z3.Int(fresh_name("len"))),
            "TODO": lambda ctx, it, a, k: VExc("TODO"),
        }
        for n in ("stmt_queue", "stmt_queue_push_buffer"):
            d[n + ".extend"] = self.m_extend(n)
            d[n + ".append"] = self.m_append(n)
            d[n + ".pop"] = self.m_pop(n)
        return d

    def getitem_hook(self, ctx, it, base, idx, node):
        return None

    # ---- ghost bookkeeping of the work loop ------------------------------------------------------------
    # An item counts as processed successfully in an iteration iff it was taken from a work list in that
    # iteration and no inference attempt made during the iteration raised UnableToInferKind.  This is decided
    # from what the body *does* (pop / kim models), not from where particular statements stand in the text.
    def work_start(self, ctx, it):
        ctx.iter_flags = {"popped": False, "failed": False}

    def work_end(self, ctx, it):
        fl = getattr(ctx, "iter_flags", None) or {}
        if fl.get("popped") and not fl.get("failed"):
            cur = ctx.ghost["cur"]
            ver = ctx.deref(ctx.deref(self.tbl(ctx)).fields["ver"]).t
            ctx.ghost["done"] = Store(ctx.ghost["done"], cur, True)
            ctx.ghost["okv"] = Store(ctx.ghost["okv"], cur, If(ver == ctx.ghost["vstart"], ver, -1))
        ctx.iter_flags = None

    # ---- invariants -------------------------------------------------------------------------------
    def table_fields(self, s):
        t = s.result
        return s._deref(t.fields["_changed"]).t, s._deref(t.fields["ver"]).t

    def inv_expand(self, s):
        return [("expanded-so-far", s.expanded_phases.n == s.loop(0)["$i"].t)]

    def inv_true(self, s):
        return []

    def inv_sets(self, s):
        """loops that only call result.set: the flag never goes down and stays tied to the version"""
        ch, ver = self.table_fields(s)
        e = s.entry
        ch0 = e._deref(e._deref(e._env["result"]).fields["_changed"]).t
        ver0 = s.g("ver0")
        return [("flag-never-goes-down", Implies(ch0, ch)),
                ("flag-down-means-table-unchanged-since-the-reset",
                 Implies(Implies(Not(ch0), e._deref(e._deref(e._env["result"]).fields["ver"]).t == ver0),
                         Implies(Not(ch), ver == ver0)))]

    def inv_fill(self, s):
        x = z3.Const("x", Item)
        q = s.stmt_queue
        i = s.loop(self.K_FILL)["$i"].t
        return [("queue-holds-every-statement-of-the-phases-seen-so-far",
                 ForAll([x], Implies(And(0 <= iphase(x), iphase(x) < i), Select(q.cnt, x) >= 1)))]

    def inv_work(self, s):
        x = z3.Const("x", Item)
        q, b = s.stmt_queue, s.stmt_queue_push_buffer
        ch, ver = self.table_fields(s)
        done, okv, ver0 = s.g("done"), s.g("okv"), s.g("ver0")
        return [("the-two-work-lists-are-distinct-objects",
                 z3.BoolVal(s._env["stmt_queue"].loc != s._env["stmt_queue_push_buffer"].loc)),
                ("every-statement-is-queued-deferred-or-done",
                 ForAll([x], Implies(self.ALL(x), Or(Select(q.cnt, x) >= 1, Select(b.cnt, x) >= 1, Select(done, x))))),
                ("flag-down-means-table-unchanged-since-the-reset", Implies(Not(ch), ver == ver0)),
                ("done-statements-were-processed-against-the-table-as-it-was-at-the-reset",
                 Implies(Not(ch), ForAll([x], Implies(Select(done, x), Select(okv, x) == ver0))))]

    def work_facts(self, s):
        return s.stmt_queue.wf() + s.stmt_queue_push_buffer.wf()

    K_FILL = 3
    GH = ["done", "okv", "cur", "vstart", "ver0"]

    @property
    def loops(self):
        return {
            0: dict(shape="for phase in phases", inv=self.inv_expand),
            1: dict(shape="for (phase_name, ident, kind) in forced_kinds", inv=self.inv_true),
            2: dict(shape="while True", inv=self.inv_true, havoc_ghosts=self.GH),
            3: dict(shape="for (name, phase) in zip(names, phases)", inv=self.inv_fill),
            4: dict(shape="while stmt_queue or stmt_queue_push_buffer", inv=self.inv_work, facts=self.work_facts,
                    iteration_start=self.work_start, iteration_end=self.work_end,
                    havoc_ghosts=self.GH, rebound=("stmt_queue", "stmt_queue_push_buffer")),
            5: dict(shape="for (phase_name, stmt) in stmt_queue_push_buffer", inv=self.inv_true),
            6: dict(shape="for (ident, _, _) in stmt.loops", inv=self.inv_sets),
            7: dict(shape="for (assignee, kind) in zip(stmt.assignees, kinds)", inv=self.inv_sets),
            8: dict(shape="for (phase_name, phase) in zip(names, phases)", inv=self.inv_true),
            9: dict(shape="for stmt in phase", inv=self.inv_true),
        }

    # ---- postcondition ----------------------------------------------------------------------------------
    def ensures(self, st):
        x = z3.Const("x", Item)
        t = st.result
        if not (isinstance(t, VObj) and t.ty is TABLE):
            return [("returns-the-table", z3.BoolVal(False))]
        ver = st._deref(t.fields["ver"]).t
        return [("every-statement-was-processed-successfully-against-the-returned-table-without-changing-it"
                 "(common-fixed-point)",
                 ForAll([x], Implies(self.ALL(x), Select(st.g("okv"), x) == ver)))]


class VItemsOfPhase(V):
    """((name, stmt) for stmt in phases[j])"""
    ty = None

    def __init__(self, j):
        self.j = j


# ---- the two one-line methods of the table the driver relies on ----------------------------------------
class ResetFlag(FunctionContract):
    prop = "C14"
    relpath = REL
    qualname = "SymbolKindTable.reset_change_flag"

    def params(self, ctx):
        self.c0 = z3.Bool("changed0")
        ctx.env["self"] = ctx.alloc(VObj(TObj("SymbolKindTable", {}), {
            "_changed": VBool(self.c0), "global_table": VPy("<g>"), "per_phase_table": VPy("<p>")}))

    def ensures(self, st):
        o = st.self
        return [("flag-is-down", Not(st._deref(o.fields["_changed"]).t)),
                ("tables-untouched", z3.BoolVal(isinstance(o.fields["global_table"], VPy)
                                                and o.fields["global_table"].py == "<g>"
                                                and o.fields["per_phase_table"].py == "<p>"))]


class IsChanged(FunctionContract):
    prop = "C14"
    relpath = REL
    qualname = "SymbolKindTable.is_changed"

    def params(self, ctx):
        self.c0 = z3.Bool("changed0")
        ctx.env["self"] = ctx.alloc(VObj(TObj("SymbolKindTable", {}), {
            "_changed": VBool(self.c0), "global_table": VPy("<g>"), "per_phase_table": VPy("<p>")}))

    def ensures(self, st):
        o = st.self
        r = st.result
        return [("returns-the-flag", r.t == self.c0 if isinstance(r, VBool) else z3.BoolVal(False)),
                ("nothing-changes", And(st._deref(o.fields["_changed"]).t == self.c0,
                                        z3.BoolVal(o.fields["global_table"].py == "<g>"
                                                   and o.fields["per_phase_table"].py == "<p>")))]


def units():
    return [FunctionUnit(FinderLoop()), FunctionUnit(ResetFlag()), FunctionUnit(IsChanged())]
