"""Native oracle for C09: inferred kinds (dagrt.data) against the values the real NumpyInterpreter stores, and the
declared result kinds of the built-ins (dagrt.function_registry) against what dagrt.builtins_python returns.

inputs (what `replay` accepts):
  {"part": "builtin", "fn": "<builtin>...", "args": [ARG...]}
      ARG = {"s": "int"|"real"|"npreal"|"cplx"|"bool"|"arr"|"iarr"|"carr"|"ut"|"cut", "v": value}
            complex numbers are [re, im]; "ut"/"cut" are user-type values of identifier "y"
  {"part": "program", "stmts": [S...], "steps": n, "clause": optional, "name": optional variable name}
      S = {"k": "assign", "lhs": name, "sub": E|null, "rhs": E, "loops": [[ident, E, E]]}
        | {"k": "if", "cond": E, "then": [S...], "else": [S...]}
        | {"k": "scall", "lhs": [names], "fn": function id, "args": [E...], "kw": [[name, E], ...]}   (keywords in the order written)
      E = ["v", name] | ["c", number | [re, im]] | ["sub", name, E] | [op, E, E] for op in + - * / ** < min max and
        | ["not", E] | ["call", function id, [E...]] | ["callkw", function id, [E...], [[name, E], ...]]
      programs are built with the real CodeBuilder (one phase), inferred with the real infer_kinds and executed
      statement by statement by the real NumpyInterpreter.  Initial state: <state>y (user type "y", 3 entries),
      <state>w (a real array of 3 entries supplied by the user), <t>=0, <dt>=0.5.

kind_of(value) and the order `below` (value kind vs. claimed kind) are defined here:
  bool -> Boolean; int -> Integer; float -> Scalar(real); complex -> Scalar(complex); ndarray -> Array(real|complex
  by dtype); user-type value (an ndarray subclass carrying its identifier) -> UserType(identifier).
  Boolean <= Boolean; Integer <= every numeric kind; Scalar(real) <= Scalar(*), Array(*), UserType(*);
  Scalar(complex) <= Scalar(complex), Array(complex), UserType(*); Array(real) <= Array(*);
  Array(complex) <= Array(complex); UserType(i) <= UserType(i); nothing else  (scalars may be stored where an array or
  user type is claimed: the kind lattice of dagrt absorbs them; such stores are counted in parts, not failed).
"""
import itertools
import json
import random
from collections import Counter

import numpy as np
from pymbolic import primitives as P

from dagrt import data as D
from dagrt import language as lang
from dagrt.function_registry import base_function_registry, register_function, register_ode_rhs


# ---------------------------------------------------------------- kind_of and the order

class UT(np.ndarray):
    """a user-type value: numpy array that remembers its type identifier"""

    def __new__(cls, data, ident):
        o = np.asarray(data).view(cls)
        o.ident = ident
        return o

    def __array_finalize__(self, obj):
        self.ident = getattr(obj, "ident", None)


def kind_of(v):
    if isinstance(v, UT) and v.ident is not None and v.ndim >= 1:
        return D.UserType(v.ident)
    if isinstance(v, np.ndarray):
        if v.ndim == 0:
            return kind_of(v.item())
        return D.Array(is_real_valued=not np.iscomplexobj(v))
    if isinstance(v, (bool, np.bool_)):
        return D.Boolean()
    if isinstance(v, (int, np.integer)):
        return D.Integer()
    if isinstance(v, (float, np.floating)):
        return D.Scalar(True)
    if isinstance(v, (complex, np.complexfloating)):
        return D.Scalar(False)
    return None


def below(vk, dk):
    """value kind vs. claimed kind.  Written out here, not computed with the real unify: a scalar may be stored
    where an array or a user type is claimed (dagrt's kinds let arrays and user types absorb scalars, the targets
    broadcast), an integer where any numeric kind is claimed; never complex under real, never an array or a user
    type under a scalar, a flag only under Boolean"""
    if vk is None or dk is None:
        return False
    if isinstance(vk, D.Boolean) or isinstance(dk, D.Boolean):
        return isinstance(vk, D.Boolean) and isinstance(dk, D.Boolean)
    if isinstance(vk, D.Integer):
        return isinstance(dk, (D.Integer, D.Scalar, D.Array, D.UserType))
    if isinstance(vk, D.Scalar):
        if isinstance(dk, D.UserType):
            return True
        return isinstance(dk, (D.Scalar, D.Array)) and (vk.is_real_valued or not dk.is_real_valued)
    if isinstance(vk, D.Array):
        return isinstance(dk, D.Array) and (vk.is_real_valued or not dk.is_real_valued)
    if isinstance(vk, D.UserType):
        return isinstance(dk, D.UserType) and vk.identifier == dk.identifier
    return False


def same_shape(vk, dk):
    return type(vk) is type(dk) or (isinstance(vk, D.Integer) and isinstance(dk, D.Scalar))


def describe(v):
    if isinstance(v, np.ndarray):
        return "%s(dtype=%s, shape=%s)" % (type(v).__name__, v.dtype, v.shape)
    return "%s %r" % (type(v).__name__, v)


# ---------------------------------------------------------------- part (i): built-ins

def dec_arg(a):
    s, v = a["s"], a["v"]
    if s == "int":
        return int(v)
    if s == "real":
        return float(v)
    if s == "npreal":
        return np.float64(v)
    if s == "cplx":
        return complex(v[0], v[1])
    if s == "bool":
        return bool(v)
    if s == "arr":
        return np.array(v, dtype=np.float64)
    if s == "iarr":
        return np.array(v, dtype=np.int64)
    if s == "carr":
        return np.array([complex(x[0], x[1]) for x in v], dtype=np.complex128)
    if s == "ut":
        return UT(np.array(v, dtype=np.float64), "y")
    if s == "cut":
        return UT(np.array([complex(x[0], x[1]) for x in v], dtype=np.complex128), "y")
    raise ValueError("bad sort %r" % s)


CATALOG = {
    "int": [3, 2], "real": [1.5, 2.0, -0.5], "npreal": [2.0], "cplx": [[1.0, 2.0]], "bool": [True],
    "arr": [[1.0, 2.0, 3.0, 5.0], [0.5, float("nan"), -1.0, 2.0]], "iarr": [[1, 2, 3, 5]],
    "carr": [[[1.0, 0.0], [0.0, 2.0], [3.0, 1.0], [2.0, 2.0]]],
    "ut": [[1.0, -2.0, 3.0, 4.0]], "cut": [[[1.0, 1.0], [0.0, 2.0], [3.0, 0.0], [1.0, -1.0]]],
}
COLS = [{"s": "int", "v": 2}, {"s": "real", "v": 2.0}, {"s": "real", "v": 2.5}, {"s": "npreal", "v": 2.0},
        {"s": "cplx", "v": [2.0, 0.0]}, {"s": "arr", "v": [2.0]}]


def all_args():
    out = []
    for s in sorted(CATALOG):
        for v in CATALOG[s]:
            out.append({"s": s, "v": v})
    return out


def builtin_inputs():
    from dagrt.builtins_python import builtins
    args = all_args()
    for fn in sorted(builtins):
        if fn not in base_function_registry:
            yield {"part": "builtin", "fn": fn, "args": None}
            continue
        names = tuple(base_function_registry[fn].arg_names)
        n = len(names)
        if n == 1:
            combos = [[a] for a in args]
        elif n == 2 and "a_cols" in names:
            combos = [[a, c] for a in args for c in COLS]
        elif n == 2:
            combos = [[a, b] for a in args for b in args]
        else:
            mats = [a for a in args if a["s"] in ("arr", "iarr", "carr", "ut", "cut", "real")]
            combos = [[a, b, c, d] for a in mats for b in mats for c in COLS[:5] for d in COLS[:5]
                      if a["v"] == CATALOG.get(a["s"], [None])[0] or a["s"] == "real"]
        for c in combos:
            yield {"part": "builtin", "fn": fn, "args": c}


def check_builtin(inp):
    """('skip', why) | ('ok', None) | ('fail', clause, detail)"""
    from dagrt.builtins_python import builtins
    fn = inp["fn"]
    if inp["args"] is None:
        return ("fail", "builtin-registered", "%s is implemented in builtins_python but has no registry entry" % fn)
    func = base_function_registry[fn]
    vals = [dec_arg(a) for a in inp["args"]]
    kinds = {i: kind_of(v) for i, v in enumerate(vals)}
    try:
        declared = func.get_result_kinds(kinds, True)
    except Exception as ex:
        return ("skip", "rejected by get_result_kinds(check=True): %s" % type(ex).__name__)
    import io
    import contextlib
    try:
        with contextlib.redirect_stdout(io.StringIO()), np.errstate(all="ignore"):
            res = builtins[fn](*vals)
    except Exception as ex:
        return ("skip", "implementation raises %s" % type(ex).__name__)
    nres = len(func.result_names)
    if nres != len(declared):
        return ("fail", "builtin-result-arity", "%s declares %d result kinds for %d result names"
                % (fn, len(declared), nres))
    if nres == 0:
        return ("ok", None)
    results = (res,) if nres == 1 else tuple(res)
    if len(results) != nres:
        return ("fail", "builtin-result-arity", "%s returns %d values, %d declared" % (fn, len(results), nres))
    for i, (r, dk) in enumerate(zip(results, declared)):
        vk = kind_of(r)
        if not below(vk, dk):
            return ("fail", "builtin-result-kind",
                    "%s(%s): result %d is %s, i.e. kind %r, but get_result_kinds(%s, check=True) declares %r"
                    % (fn, ", ".join(describe(v) for v in vals), i, describe(r), vk,
                       [repr(kinds[k]) for k in sorted(kinds)], dk))
    return ("ok", None)


# ---------------------------------------------------------------- part (ii): programs

BINOPS = {"+": lambda a, b: P.Sum((a, b)), "-": lambda a, b: P.Sum((a, P.Product((-1, b)))),
          "*": lambda a, b: P.Product((a, b)), "/": lambda a, b: P.Quotient(a, b), "**": lambda a, b: P.Power(a, b),
          "<": lambda a, b: P.Comparison(a, "<", b), "min": lambda a, b: P.Min((a, b)),
          "max": lambda a, b: P.Max((a, b)), "and": lambda a, b: P.LogicalAnd((a, b))}


def mk(e):
    t = e[0]
    if t == "v":
        return P.Variable(e[1])
    if t == "c":
        return complex(e[1][0], e[1][1]) if isinstance(e[1], list) else e[1]
    if t == "npc":
        # a constant of a numpy scalar type: ["npc", "complex64", [re, im]] / ["npc", "float32", 2.5]
        v = complex(e[2][0], e[2][1]) if isinstance(e[2], list) else e[2]
        return getattr(np, e[1])(v)
    if t == "sub":
        return P.Variable(e[1])[mk(e[2])]
    if t in BINOPS:
        return BINOPS[t](mk(e[1]), mk(e[2]))
    if t == "not":
        return P.LogicalNot(mk(e[1]))
    if t == "call":
        return P.Call(P.Variable(e[1]), tuple(mk(a) for a in e[2]))
    if t == "callkw":
        # keyword arguments in the order written: ["callkw", fid, [E...], [[name, E], ...]]
        from constantdict import constantdict
        return P.CallWithKwargs(P.Variable(e[1]), tuple(mk(a) for a in e[2]), constantdict({n: mk(v) for n, v in e[3]}))
    raise ValueError("bad expression tag %r" % (t,))


def registry():
    freg = register_ode_rhs(base_function_registry, "y", identifier="<func>f")
    for name, kind in (("int", D.Integer()), ("real", D.Scalar(True)), ("cplx", D.Scalar(False)),
                       ("arr", D.Array(True)), ("carr", D.Array(False))):
        freg = register_function(freg, "<func>" + name, (), result_names=("result",), result_kinds=(kind,))
    return freg


def function_map():
    return {"<func>f": lambda t, y: UT(-0.5 * np.asarray(y) + t, "y"),
            "<func>int": lambda: 3, "<func>real": lambda: 0.25, "<func>cplx": lambda: 1 + 2j,
            "<func>arr": lambda: np.array([1.0, 2.0, 3.0]), "<func>carr": lambda: np.array([1j, 2.0, 3.0])}


def build_program(inp):
    cb = lang.CodeBuilder("primary")

    def emit(stmts):
        for s in stmts:
            if s["k"] == "scall":
                # statement-level call: (lhs...) <- fn(args..., kw in the order written)
                e_ = ["callkw", s["fn"], s.get("args") or [], s.get("kw") or []] if s.get("kw") else ["call", s["fn"], s.get("args") or []]
                cb.assign(tuple(P.Variable(n) for n in s["lhs"]), mk(e_))
            elif s["k"] == "assign":
                lhs = P.Variable(s["lhs"])
                if s.get("sub"):
                    lhs = lhs[mk(s["sub"])]
                loops = [(l[0], mk(l[1]), mk(l[2])) for l in s.get("loops") or []]
                cb.assign(lhs, mk(s["rhs"]), loops=loops)
            else:
                with cb.if_(mk(s["cond"])):
                    emit(s["then"])
                if s.get("else"):
                    with cb.else_():
                        emit(s["else"])
    emit(inp["stmts"])
    stmts = list(cb.statements)
    if inp.get("order") and len(inp["order"]) == len(stmts):
        # the statement list of a phase is unordered (execution follows depends_on): present it in another order
        stmts = [stmts[i] for i in inp["order"]]
    phase = lang.ExecutionPhase("primary", "primary", stmts)
    return lang.DAGCode({"primary": phase}, "primary")


def topo(stmts):
    ids = [s.id for s in stmts]
    byid = {s.id: s for s in stmts}
    done, order = set(), []
    while len(order) < len(stmts):
        ready = [i for i in ids if i not in done and all(d in done for d in byid[i].depends_on)]
        if not ready:
            raise ValueError("cyclic dependencies")
        done.add(ready[0])
        order.append(byid[ready[0]])
    return order


def written(st):
    if isinstance(st, lang.Assign):
        return [st.assignee]
    if isinstance(st, lang.AssignFunctionCall):
        return list(st.assignees)
    return []


def lookup(table, name):
    from dagrt.utils import is_state_variable
    tbl = table.global_table if is_state_variable(name) else table.per_phase_table.get("primary", {})
    return (name in tbl), tbl.get(name)


def _repairs():
    """trial repairs of known defects, used only by fingerprints (applied around inference, always restored)"""
    def power(self, expr):
        return D.unify(self.rec(expr.base), self.rec(expr.exponent))

    def quotient(self, expr):
        k = self.map_product_like((expr.numerator, expr.denominator))
        return D.Scalar(True) if isinstance(k, D.Integer) else k
    orig_set = D.SymbolKindTable.set

    def set_(self, phase_name, name, kind):
        from dagrt.utils import is_state_variable
        tbl = self.global_table if is_state_variable(name) else self.per_phase_table.setdefault(phase_name, {})
        new = name not in tbl
        orig_set(self, phase_name, name, kind)
        if new:
            self._changed = True            # a new entry makes another sweep necessary
    return {"D11": (D.KindInferenceMapper, "map_power", power),
            "D13": (D.KindInferenceMapper, "map_quotient", quotient),
            "SUM": (D.SymbolKindTable, "set", set_)}


def infer(dag, repair=None):
    import io
    import contextlib
    unify_raised = []
    real = D.unify

    def spy(a, b):
        try:
            return real(a, b)
        except Exception:
            unify_raised.append((repr(a), repr(b)))
            raise
    D.unify = spy
    saved = []
    for r in ([repair] if isinstance(repair, str) else list(repair or [])):
        cls, attr, fn = _repairs()[r]
        saved.append((cls, attr, cls.__dict__[attr]))
        setattr(cls, attr, fn)
    try:
        with contextlib.redirect_stdout(io.StringIO()):
            try:
                table = D.infer_kinds(dag, function_registry=registry())
            except Exception as ex:
                return None, type(ex).__name__, unify_raised
    finally:
        D.unify = real
        for cls, attr, orig in reversed(saved):
            setattr(cls, attr, orig)
    return table, None, unify_raised


def local_kind(st, pre):
    """the kind the inference rules give this statement's right-hand side when every operand has the kind of the
    value it holds right now; None if that cannot be computed"""
    from pymbolic import flatten
    tbl = dict(pre)
    for ident, _, _ in getattr(st, "loops", []) or []:
        tbl[ident] = D.Integer()
    kim = D.KindInferenceMapper(tbl, {}, registry(), check=False)
    try:
        if isinstance(st, lang.Assign):
            return kim(flatten(st.rhs))
        if isinstance(st, lang.AssignFunctionCall):
            ks = kim.map_generic_call(st.function_id, D._get_arg_dict_from_call_stmt(st), single_return_only=False)
            return ks[0] if len(ks) == 1 else None
    except Exception:
        return None
    return None


def check_program(inp, repair=None):
    """returns (status, failures[(clause, name, detail, data)], info)"""
    from dagrt.exec_numpy import NumpyInterpreter
    try:
        dag = build_program(inp)
    except (ValueError, TypeError) as ex:       # CodeBuilder refuses the program (e.g. a[0] <- f(x))
        return "builder-rejects", [], {"inference_error": "builder:" + type(ex).__name__}
    stmts = list(dag.phases["primary"].statements)
    table, err, unify_raised = infer(dag, repair)
    info = {"inferred": table is not None, "unify_conflict": bool(unify_raised)}
    if table is None:
        info["inference_error"] = err
        return "no-inference", [], info
    fails = []
    # clause A: every assigned variable has a kind
    assigned = {}
    for st in stmts:
        for n in written(st):
            assigned.setdefault(n, []).append(st)
    for n in sorted(assigned):
        present, kind = lookup(table, n)
        if not present or not isinstance(kind, D.SymbolKind):
            only_sub = all(isinstance(st, lang.Assign) and st.assignee_subscript for st in assigned[n])
            top_power = none_by_power(assigned, n, 0)
            fails.append(("assigned-variable-has-kind", n,
                          "inference succeeds but %r, assigned by %s, has %s" % (
                              n, [str(st) for st in assigned[n]][:2],
                              "no table entry" if not present else "kind %r" % (kind,)),
                          {"present": present, "only_subscript": only_sub, "top_power": top_power}))
    # clause B: stored values are of the inferred kind (monitor after every executed statement)
    interp = NumpyInterpreter(dag, function_map())
    interp.set_up(t_start=0.0, dt_start=0.5, context={"y": UT(np.array([1.0, -2.0, 0.5]), "y"),
                                                      "w": np.array([0.5, 1.5, 2.5])})
    executed = 0
    seen = set()
    stop = None
    import io
    import contextlib
    for step in range(inp.get("steps", 2)):
        try:
            order = topo(stmts)
        except ValueError:
            break
        for st in order:
            pre = {k: kind_of(v) for k, v in interp.context.items() if v is not None}
            try:
                with np.errstate(all="ignore"), contextlib.redirect_stdout(io.StringIO()):
                    if not interp.evaluate_condition(st):
                        continue
                    getattr(interp, st.exec_method)(st)
            except Exception as ex:
                stop = "%s at %s" % (type(ex).__name__, st.id)
                break
            executed += 1
            for n in written(st):
                if n not in interp.context:
                    continue
                if isinstance(st, lang.Assign) and st.assignee_subscript:
                    continue                 # an element was stored; the variable's own value was checked before
                present, kind = lookup(table, n)
                if not present or not isinstance(kind, D.SymbolKind):
                    continue
                v = interp.context[n]
                if v is None:
                    continue                 # an unset name read as None was copied: not a stored value of any kind
                vk = kind_of(v)
                if below(vk, kind) and not same_shape(vk, kind):
                    info["promoted_stores"] = info.get("promoted_stores", 0) + 1
                if not below(vk, kind) and (n, repr(vk)) not in seen:
                    lk = local_kind(st, pre)
                    bad_ops = []
                    for m in sorted(st.get_read_variables()):
                        if m not in pre:
                            continue
                        mp, mk_ = lookup(table, m)
                        if not mp or not isinstance(mk_, D.SymbolKind) or not below(pre[m], mk_):
                            bad_ops.append(m)
                    if bad_ops:
                        # an operand already violates (or lacks) its own kind: that is reported where it happens,
                        # what is computed from it is not reported again
                        info["inherited"] = info.get("inherited", 0) + 1
                        continue
                    seen.add((n, repr(vk)))
                    rhs = st.rhs if isinstance(st, lang.Assign) else None
                    isnan = (isinstance(rhs, P.Call) and rhs.function.name == "<builtin>isnan") or (
                        isinstance(st, lang.AssignFunctionCall) and st.function_id == "<builtin>isnan")
                    fails.append(("value-of-inferred-kind", n,
                                  "after `%s` (step %d) %r holds %s, i.e. kind %r, but the inferred kind is %r"
                                  % (st, step, n, describe(v), vk, kind),
                                  {"value_kind": repr(vk), "inferred": repr(kind), "stmt": str(st),
                                   "has_quotient": _has(rhs, P.Quotient), "has_power": _has(rhs, P.Power),
                                   "isnan_call": isnan, "stmt_id": st.id, "local_kind": repr(lk),
                                   "copy_of": rhs.name if isinstance(rhs, P.Variable) else None,
                                   "comparison": isinstance(rhs, P.Comparison),
                                   "conflict": bool(unify_raised)}))
        if stop:
            break
        for name in list(interp.context):
            if not (name.startswith("<state>") or name.startswith("<p>") or name in ("<t>", "<dt>")):
                del interp.context[name]
    info["executed"] = executed
    info["stopped"] = stop
    return "ok", fails, info


def none_by_power(assigned, n, depth):
    """some assignment of n has a power as its whole right-hand side, or copies such a variable"""
    if depth > 6:
        return False
    for st in assigned.get(n, []):
        if isinstance(st, lang.Assign) and not st.assignee_subscript:
            if isinstance(st.rhs, P.Power):
                return True
            if isinstance(st.rhs, P.Variable) and st.rhs.name != n and none_by_power(assigned, st.rhs.name, depth + 1):
                return True
    return False


def _has(e, cls):
    if e is None:
        return False
    if isinstance(e, cls):
        return True
    if isinstance(e, (P.Sum, P.Product, P.Min, P.Max, P.LogicalAnd, P.LogicalOr)):
        return any(_has(c, cls) for c in e.children)
    if isinstance(e, P.Quotient):
        return _has(e.numerator, cls) or _has(e.denominator, cls)
    if isinstance(e, P.Power):
        return _has(e.base, cls) or _has(e.exponent, cls)
    if isinstance(e, P.Comparison):
        return _has(e.left, cls) or _has(e.right, cls)
    if isinstance(e, P.LogicalNot):
        return _has(e.child, cls)
    if isinstance(e, P.Call):
        return any(_has(a, cls) for a in e.parameters)
    if isinstance(e, P.Subscript):
        return _has(e.index, cls)
    return False


def origin(inp):
    """if the failing store is a plain copy `n <- m` and m itself fails the same clause, look at m instead"""
    if inp.get("part") != "program" or inp.get("clause") != "value-of-inferred-kind" or not inp.get("name"):
        return inp
    status, allfails, _ = check_program(dict(inp, clause=None, name=None))
    cur = inp["name"]
    for _ in range(6):
        mine = [d for c, n, _, d in allfails if c == inp["clause"] and n == cur]
        if not mine or not all(d.get("copy_of") for d in mine):
            break
        src = mine[0]["copy_of"]
        if not any(c == inp["clause"] and n == src for c, n, _, _ in allfails):
            break
        cur = src
    return dict(inp, name=cur)


def check(inp):
    """failures [(clause, name, detail, data)]"""
    if inp.get("part") == "builtin":
        r = check_builtin(inp)
        if r[0] == "fail":
            return [(r[1], inp["fn"], r[2], {})]
        return []
    status, fails, info = check_program(inp)
    if inp.get("clause"):
        fails = [f for f in fails if f[0] == inp["clause"]]
    if inp.get("name"):
        fails = [f for f in fails if f[1] == inp["name"]]
    return fails


def replay(inp):
    try:
        fails = check(inp)
    except Exception as ex:
        return {"error": "%s: %s" % (type(ex).__name__, ex)}
    if fails:
        return {"fails": True, "detail": "[%s] %s" % (fails[0][0], fails[0][2])}
    return {"fails": False, "detail": None}


# ---------------------------------------------------------------- fingerprints of known findings

def fp_d12(inp):
    """<builtin>isnan applied to an array / user-type value returns an array where Boolean is declared"""
    if inp.get("part") == "builtin":
        if inp.get("fn") != "<builtin>isnan" or not inp.get("args"):
            return False
        if inp["args"][0]["s"] not in ("arr", "iarr", "carr", "ut", "cut"):
            return False
        fails = check(inp)
        return bool(fails) and fails[0][0] == "builtin-result-kind"
    if inp.get("clause") != "value-of-inferred-kind":
        return False
    inp = origin(inp)
    fails = check(inp)
    return bool(fails) and all(d["isnan_call"] and d["local_kind"] in (repr(D.Boolean()), "None")
                               and d["value_kind"].startswith(("Array", "UserType")) for _, _, _, d in fails)


def repaired_away(inp, repair, or_rejected=False, or_conflict=False):
    """the failure exists, and with the trial repair inference still succeeds and the failure is gone
    (or_rejected: or the repaired inference no longer accepts the program at all, so that the property's premise
    "inference succeeds" only held because of the defect; or_conflict: or what remains is the D5 situation - with
    the repair the table sees non-unifiable kinds for the name, which it did not see before)"""
    mine = check(inp)
    if not mine:
        return False
    status, fails, info = check_program(dict(inp, clause=None, name=None), repair=repair)
    if status != "ok":
        return or_rejected and status == "no-inference"
    rest = [d for c, n, _, d in fails if c == inp.get("clause") and n == inp.get("name")]
    if not rest:
        return True
    return or_conflict and all(d.get("conflict") or d.get("isnan_call") for d in rest) and \
        not any(d.get("conflict") for _, _, _, d in mine)


def _assigning(inp, name):
    dag = build_program(inp)
    return [st for st in dag.phases["primary"].statements if name in written(st)]


def _mentions(inp, name, cls):
    from pymbolic import flatten
    for st in _assigning(inp, name):
        if isinstance(st, lang.Assign) and _has(flatten(st.rhs), cls):
            return True
        if isinstance(st, lang.AssignFunctionCall) and any(_has(flatten(a), cls) for a in st.parameters):
            return True
    return False


def fp_d13(inp):
    """a quotient of integers is inferred Integer but the stored value is a float: the failure goes away when
    map_quotient answers Scalar(real) for Integer/Integer"""
    if inp.get("part") != "program" or inp.get("clause") != "value-of-inferred-kind":
        return False
    return repaired_away(inp, "D13")


def fp_d11(inp):
    """map_power returns nothing: a variable whose right-hand side is a power (or a copy of one) gets kind None, and a
    power inside a sum / product contributes no kind; the failure goes away when map_power answers the join of base
    and exponent"""
    if inp.get("part") != "program":
        return False
    if inp.get("clause") == "assigned-variable-has-kind":
        fails = check(inp)
        if not fails or not all(d["present"] for _, _, _, d in fails):
            return False
        return all(d["top_power"] for _, _, _, d in fails) or repaired_away(inp, "D11", or_rejected=True)
    if inp.get("clause") == "value-of-inferred-kind":
        fails = check(inp)
        if not fails or not all(d["has_power"] or d["copy_of"] or d["isnan_call"] for _, _, _, d in fails) \
                or not any(d["has_power"] or d["copy_of"] for _, _, _, d in fails):
            return False
        rej = any(d["has_power"] for _, _, _, d in fails)
        if repaired_away(inp, "D11", or_rejected=rej, or_conflict=True):
            return True
        # the power sits in a sum that was also inferred from its known operands only: both repairs are needed
        return not repaired_away(inp, "SUM", or_rejected=True, or_conflict=True) and \
            repaired_away(inp, ("D11", "SUM"), or_rejected=rej, or_conflict=True)
    return False


def fp_d23(inp):
    """a variable assigned only through a subscript gets no table entry"""
    if inp.get("part") != "program" or inp.get("clause") != "assigned-variable-has-kind":
        return False
    fails = check(inp)
    return bool(fails) and all((not d["present"]) and d["only_subscript"] for _, _, _, d in fails)


def fp_d5(inp):
    """the program assigns non-unifiable kinds to one name (unify raised inside the table, first kind wins)"""
    if inp.get("part") != "program" or inp.get("clause") != "value-of-inferred-kind":
        return False
    inp = origin(inp)
    fails = check(inp)
    if not fails or not all(d["conflict"] for _, _, _, d in fails):
        return False
    # the variable concerned must itself be assigned values of two non-unifiable kinds at run time
    dag = build_program(inp)
    names = {n for _, n, _, _ in fails}
    status, allfails, info = check_program(dict(inp, clause=None, name=None))
    for n in names:
        kinds = {d["value_kind"] for c, m, _, d in allfails if m == n and c == "value-of-inferred-kind"}
        present, kind = lookup(infer(dag)[0], n)
        ok = False
        for vk in kinds:
            try:
                D.unify(eval_kind(vk), kind)
            except Exception:
                ok = True
        if not ok:
            return False
    return True


def eval_kind(r):
    return eval(r, {"Boolean": D.Boolean, "Integer": D.Integer, "Scalar": D.Scalar, "Array": D.Array,
                    "UserType": D.UserType})


def fp_neg_power(inp):
    """a power with a negative real base and fractional exponent evaluates to a Python complex where the
    operands (and so the inferred kind) are real"""
    if inp.get("part") != "program" or inp.get("clause") != "value-of-inferred-kind":
        return False
    inp = origin(inp)
    fails = check(inp)
    return bool(fails) and all(d["has_power"] and d["value_kind"] in (repr(D.Scalar(False)), repr(D.Array(False)))
                               and "True" in d["inferred"] for _, _, _, d in fails)


def fp_partial_sum(inp):
    """map_sum takes the kind of a sum from the operands known at the time ("being able to infer one child is good
    enough") and the statement is never revisited when the other operand gets its kind later, because a new table
    entry does not count as a change; the failure goes away when new entries trigger another sweep"""
    if inp.get("part") != "program" or inp.get("clause") != "value-of-inferred-kind":
        return False
    inp = origin(inp)
    if not inp.get("name") or not _mentions(inp, inp["name"], P.Sum):
        return False
    if repaired_away(inp, "SUM", or_rejected=True, or_conflict=True):
        return True
    return not repaired_away(inp, "D11", or_rejected=True, or_conflict=True) and \
        repaired_away(inp, ("D11", "SUM"), or_rejected=True, or_conflict=True)


def fp_minmax(inp):
    """min / max are given kind Scalar(real) whatever their operands are (a flag, an array, a complex number)"""
    if inp.get("part") != "program" or inp.get("clause") != "value-of-inferred-kind":
        return False
    inp = origin(inp)
    fails = check(inp)
    if not fails or not inp.get("name"):
        return False
    from pymbolic import flatten
    byid = {st.id: st for st in build_program(inp).phases["primary"].statements}
    for _, _, _, d in fails:
        st = byid.get(d["stmt_id"])
        if not isinstance(st, lang.Assign) or not isinstance(flatten(st.rhs), (P.Min, P.Max)):
            return False
        if d["local_kind"] != repr(D.Scalar(True)) or d["value_kind"] in (repr(D.Scalar(True)), repr(D.Integer())):
            return False
    return True


def fp_array_comparison(inp):
    """a comparison with an array / user-type operand evaluates to an array of flags, inferred Boolean"""
    if inp.get("part") != "program" or inp.get("clause") != "value-of-inferred-kind":
        return False
    inp = origin(inp)
    fails = check(inp)
    return bool(fails) and all(d["comparison"] and d["local_kind"] == repr(D.Boolean())
                               and d["value_kind"].startswith(("Array", "UserType")) for _, _, _, d in fails)


FINGERPRINTS = {
    "sum_kind_from_known_operands_only": fp_partial_sum,
    "D11_power_rhs_kind_none": fp_d11,
    "D12_isnan_of_array_declared_boolean": fp_d12,
    "D13_integer_quotient_is_float": fp_d13,
    "D23_subscript_only_assignment_no_kind": fp_d23,
    "D5_conflicting_kinds_first_wins": fp_d5,
    "real_power_evaluates_complex": fp_neg_power,
    "comparison_with_array_operand_declared_boolean": fp_array_comparison,
    "min_max_declared_real_scalar_whatever_the_operands": fp_minmax,
}


# ---------------------------------------------------------------- program generation

def V(n):
    return ["v", n]


def C(x):
    return ["c", x]


class Gen:
    def __init__(self, rng):
        self.rng = rng
        self.vars = {"real": ["<t>", "<dt>"], "int": [], "cplx": [], "arr": ["<state>w"], "carr": [], "ut": ["<state>y"],
                     "bool": []}
        self.loopvar = None

    def pick(self, sort):
        pool = list(self.vars[sort])
        if sort == "int" and self.loopvar:
            pool.append(self.loopvar)
        return V(self.rng.choice(pool)) if pool else None

    def expr(self, sort, d):
        r = self.rng
        if r.random() < 0.04:
            sort = r.choice(["real", "int", "cplx", "arr", "ut", "bool"])      # a deliberate mismatch
        leafy = d <= 0 or r.random() < 0.3
        if sort == "real":
            if leafy:
                return self.pick("real") if r.random() < 0.6 else C(r.choice([2, 0.5, -0.5, 1.5, 3]))
            k = r.choice(["+", "*", "/", "-", "**", "min", "max", "norm", "len", "sub", "mixint", "freal", "abs"])
            if k in ("+", "*", "/", "-", "min", "max"):
                return [k, self.expr("real", d - 1), self.expr("real", d - 1)]
            if k == "**":
                return ["**", self.expr("real", d - 1), C(r.choice([2, 0.5, 2.0]))]
            if k == "norm":
                return ["call", "<builtin>" + r.choice(["norm_1", "norm_2", "norm_inf"]),
                        [self.expr(r.choice(["arr", "ut"]), d - 1)]]
            if k == "len":
                return ["call", "<builtin>len", [self.expr(r.choice(["arr", "ut"]), d - 1)]]
            if k == "sub":
                a = self.pick("arr")
                return ["sub", a[1], C(r.choice([0, 1, 2]))]
            if k == "mixint":
                return [r.choice(["+", "*", "/"]), self.expr("int", d - 1), self.expr("real", d - 1)]
            if k == "abs":
                return ["call", "<builtin>elementwise_abs", [self.expr("real", d - 1)]]
            return ["call", "<func>real", []]
        if sort == "int":
            if leafy:
                return self.pick("int") or ["call", "<func>int", []]
            k = r.choice(["+", "*", "/", "**", "call", "min"])
            if k == "call":
                return ["call", "<func>int", []]
            if k == "**":
                return ["**", self.expr("int", d - 1), C(2)]
            return [k, self.expr("int", d - 1), self.expr("int", d - 1)]
        if sort == "cplx":
            if leafy:
                return self.pick("cplx") or C([0.0, 1.0])
            k = r.choice(["+", "*", "dot", "call", "/"])
            if k == "dot":
                return ["call", "<builtin>dot_product", [self.expr("arr", d - 1), self.expr("arr", d - 1)]]
            if k == "call":
                return ["call", "<func>cplx", []]
            return [k, self.expr("cplx", d - 1), self.expr("real", d - 1)]
        if sort == "arr":
            if leafy:
                return self.pick("arr")
            k = r.choice(["+", "*", "abs", "call", "array", "/"])
            if k == "abs":
                return ["call", "<builtin>elementwise_abs", [self.expr(r.choice(["arr", "carr"]), d - 1)]]
            if k == "call":
                return ["call", "<func>arr", []]
            if k == "array":
                return ["call", "<builtin>array", [C(3)]]
            if k == "+":
                return ["+", self.expr("arr", d - 1), self.expr("arr", d - 1)]
            return [k, self.expr("arr", d - 1), self.expr("real", d - 1)]
        if sort == "carr":
            if leafy:
                return self.pick("carr") or ["call", "<func>carr", []]
            return ["*", self.expr("cplx", d - 1), self.expr("arr", d - 1)]
        if sort == "ut":
            if leafy:
                return self.pick("ut")
            k = r.choice(["+", "*", "f", "abs", "axpy"])
            if k == "+":
                return ["+", self.expr("ut", d - 1), self.expr("ut", d - 1)]
            if k == "*":
                return ["*", self.expr(r.choice(["real", "real", "cplx", "int"]), d - 1), self.expr("ut", d - 1)]
            if k == "f":
                return ["call", "<func>f", [self.expr("real", d - 1), self.expr("ut", d - 1)]]
            if k == "abs":
                return ["call", "<builtin>elementwise_abs", [self.expr("ut", d - 1)]]
            return ["+", self.expr("ut", d - 1), ["*", V("<dt>"), ["call", "<func>f", [V("<t>"), self.expr("ut", 0)]]]]
        if sort == "bool":
            if leafy and self.vars["bool"]:
                return self.pick("bool")
            k = r.choice(["<", "<", "isnan", "isnan_arr", "not", "and"])
            if k == "<":
                return ["<", self.expr("real", d - 1), self.expr("real", d - 1)]
            if k == "isnan":
                return ["call", "<builtin>isnan", [self.expr("real", d - 1)]]
            if k == "isnan_arr":
                return ["call", "<builtin>isnan", [self.expr(r.choice(["arr", "ut"]), d - 1)]]
            if k == "not":
                return ["not", self.expr("bool", d - 1)]
            return ["and", self.expr("bool", d - 1), self.expr("bool", d - 1)]
        raise ValueError(sort)

    def stmt(self, depth, allow_if=True):
        r = self.rng
        k = r.random()
        if k < 0.1 and allow_if:
            cond = self.expr("bool", 1)
            if cond[0] not in ("<",):
                cond = ["<", self.expr("real", 1), self.expr("real", 1)]
            return {"k": "if", "cond": cond, "then": [self.stmt(depth, False) for _ in range(r.randint(1, 2))],
                    "else": [self.stmt(depth, False)] if r.random() < 0.5 else []}
        if k < 0.2:
            arr = r.choice(self.vars["arr"])
            return {"k": "assign", "lhs": arr, "sub": C(r.choice([0, 1, 2])), "rhs": self.expr("real", depth - 1),
                    "loops": []}
        if k < 0.3:
            self.loopvar = "i"
            arr = r.choice(self.vars["arr"])
            if r.random() < 0.5:
                s = {"k": "assign", "lhs": arr, "sub": V("i"), "rhs": self.expr(r.choice(["real", "int"]), depth - 1),
                     "loops": [["i", C(0), C(3)]]}
            else:
                sort = r.choice(["int", "real"])
                name = self.newvar(sort)
                s = {"k": "assign", "lhs": name, "sub": None, "rhs": self.expr(sort, depth),
                     "loops": [["i", C(1), C(3)]]}
            self.loopvar = None
            return s
        sort = r.choice(["real", "real", "int", "cplx", "arr", "carr", "ut", "ut", "bool"])
        rhs = self.expr(sort, depth)
        if rhs is None:
            rhs = C(1.0)
        if r.random() < 0.25 and sort in ("ut", "real", "arr"):
            name = {"ut": "<state>y", "real": "<p>r", "arr": "<p>a"}[sort]
            if name not in self.vars[sort]:
                self.vars[sort].append(name)
        else:
            name = self.newvar(sort)
        return {"k": "assign", "lhs": name, "sub": None, "rhs": rhs, "loops": []}

    def newvar(self, sort):
        r = self.rng
        if r.random() < 0.12:
            name = r.choice(["v0", "v1", "v2", "v3", "v4", "v5"])      # possibly re-assigning another sort
        else:
            name = "v%d" % sum(len(v) for v in self.vars.values())
        for s in self.vars.values():
            if name in s and s is not self.vars[sort]:
                s.remove(name)
        if name not in self.vars[sort]:
            self.vars[sort].append(name)
        return name


def gen_program(rng, depth=2):
    g = Gen(rng)
    stmts = []
    if rng.random() < 0.7:
        stmts.append({"k": "assign", "lhs": "<state>y", "sub": None,
                      "rhs": ["+", V("<state>y"), ["*", V("<dt>"), ["call", "<func>f", [V("<t>"), V("<state>y")]]]],
                      "loops": []})
    if rng.random() < 0.6:                   # otherwise <state>w is only ever assigned through subscripts
        stmts.append({"k": "assign", "lhs": "<state>w", "sub": None, "rhs": ["call", "<func>arr", []], "loops": []})
    for _ in range(rng.randint(2, 6)):
        stmts.append(g.stmt(depth))
    return {"part": "program", "stmts": stmts, "steps": 2}


SEED_PROGRAMS = [
    # the expression operators the property names, one per program
    [{"k": "assign", "lhs": "v0", "sub": None, "rhs": ["**", V("<dt>"), C(2)], "loops": []}],
    [{"k": "assign", "lhs": "v0", "sub": None, "rhs": ["+", C(1), ["**", V("<dt>"), C(2)]], "loops": []}],
    [{"k": "assign", "lhs": "v0", "sub": None, "rhs": ["call", "<func>int", []], "loops": []},
     {"k": "assign", "lhs": "v1", "sub": None, "rhs": ["/", V("v0"), V("v0")], "loops": []}],
    [{"k": "assign", "lhs": "v0", "sub": None, "rhs": ["/", V("i"), V("i")], "loops": [["i", C(1), C(3)]]}],
    [{"k": "assign", "lhs": "<state>w", "sub": C(0), "rhs": C(1), "loops": []}],
    [{"k": "assign", "lhs": "v0", "sub": None, "rhs": ["call", "<builtin>isnan", [V("<state>w")]], "loops": []}],
    [{"k": "assign", "lhs": "v0", "sub": None, "rhs": ["min", V("<dt>"), C(2)], "loops": []},
     {"k": "assign", "lhs": "v1", "sub": None, "rhs": ["max", C(1), C(2)], "loops": []}],
    [{"k": "assign", "lhs": "v0", "sub": None, "rhs": ["sub", "<state>w", C(1)], "loops": []}],
    [{"k": "assign", "lhs": "v0", "sub": None, "rhs": ["<", V("<t>"), C(1)], "loops": []},
     {"k": "assign", "lhs": "v1", "sub": None, "rhs": V("v0"), "loops": []}],
    [{"k": "assign", "lhs": "v0", "sub": None, "rhs": ["*", C([0.0, 1.0]), V("<dt>")], "loops": []},
     {"k": "assign", "lhs": "v1", "sub": None, "rhs": ["+", V("v0"), V("<t>")], "loops": []}],
    [{"k": "assign", "lhs": "v0", "sub": None, "rhs": ["call", "<builtin>array", [C(3)]], "loops": []},
     {"k": "assign", "lhs": "v0", "sub": V("i"), "rhs": ["*", V("i"), C(2)], "loops": [["i", C(0), C(3)]]},
     {"k": "assign", "lhs": "v1", "sub": None, "rhs": ["call", "<builtin>norm_2", [V("v0")]], "loops": []}],
    [{"k": "assign", "lhs": "v0", "sub": None, "rhs": ["**", C(-0.5), C(0.5)], "loops": []},
     {"k": "assign", "lhs": "v1", "sub": None, "rhs": ["+", C(1), ["**", ["-", V("<t>"), C(0.5)], C(0.5)]],
      "loops": []}],
    [{"k": "assign", "lhs": "v0", "sub": None, "rhs": ["call", "<builtin>dot_product", [V("<state>w"), V("<state>w")]],
      "loops": []}],
    [{"k": "assign", "lhs": "v0", "sub": None, "rhs": ["call", "<builtin>len", [V("<state>y")]], "loops": []},
     {"k": "assign", "lhs": "v1", "sub": None, "rhs": ["/", V("v0"), C(2)], "loops": []}],
    [{"k": "assign", "lhs": "v0", "sub": None, "rhs": C(1.5), "loops": []},
     {"k": "assign", "lhs": "v0", "sub": None, "rhs": ["<", V("<t>"), C(1)], "loops": []}],
]


# ---------------------------------------------------------------- driver

def _safe(f, inp):
    try:
        return bool(f(inp))
    except Exception:
        return False


_TRIGGERS = ("min", "max", "**", "<builtin>isnan", "<func>int", "<", "<=", ">", ">=", "==", "!=", "cmp")


def _has_known_trigger(inp):
    """does the program contain a construct for which a kind/value disagreement is recorded
    (min/max, powers, isnan, integer-kind sources, comparisons)?"""
    def walk(e):
        if isinstance(e, (list, tuple)):
            if e and isinstance(e[0], str) and e[0] in _TRIGGERS:
                return True
            return any(walk(x) for x in e)
        if isinstance(e, dict):
            return any(walk(v) for v in e.values())
        return isinstance(e, str) and e in _TRIGGERS
    return walk(inp.get("stmts"))


def bounded(payload):
    import time
    budget = payload.get("budget", {}) or {}
    tier = payload.get("tier", "quick")
    seed = payload.get("seed", 0)
    rng = random.Random(seed)
    nprog = budget.get("programs", 2000 if tier == "quick" else 40000)
    deadline = time.time() + budget.get("wall_s", 14 if tier == "quick" else 270)
    active = [(e.get("id"), e.get("fingerprint")) for e in payload.get("known", []) or []
              if e.get("fingerprint") in FINGERPRINTS]
    evals = 0
    distinct = set()
    failures, samples = [], []
    per_class = Counter()
    parts = Counter()

    def report(clause, inp, detail):
        parts["failing_" + clause] += 1
        matched = [n for n, f in sorted(FINGERPRINTS.items()) if _safe(f, inp)]
        for m in matched:
            parts["fingerprint_" + m] += 1
        if not matched:
            parts["no_fingerprint"] += 1
        sup = [kid for kid, name in active if name in matched]
        if sup:
            parts["suppressed_known_" + str(sup[0])] += 1
            return
        if not matched and active and inp.get("part") == "program" and _has_known_trigger(inp):
            # a chain of several known disagreements (e.g. a complex dot product flowing into min()) is not
            # attributed by any single fingerprint; a random program that contains a construct with a recorded
            # finding is not used as evidence of a NEW violation (counted, stated in `rule`)
            parts["unattributed_in_program_with_known_trigger"] += 1
            return
        cls = (clause, tuple(matched))
        per_class[cls] += 1
        if per_class[cls] <= 2:
            failures.append({"oracle": clause, "input": inp, "detail": detail, "matches_fingerprints": matched})

    # (i) built-ins: exhaustive over the argument catalogue
    stride = budget.get("builtin_stride", 3 if tier == "quick" else 1)
    for k, inp in enumerate(builtin_inputs()):
        n = len(inp["args"] or [])
        if n >= 4 and (k + seed) % stride:
            continue
        evals += 1
        try:
            r = check_builtin(inp)
        except Exception as ex:
            parts["oracle_skipped_" + type(ex).__name__] += 1
            continue
        parts["builtin_" + r[0]] += 1
        if r[0] == "skip":
            parts["builtin_" + r[1].split(":")[0].replace(" ", "_")] += 1
            continue
        distinct.add(json.dumps(inp, sort_keys=True))
        parts["builtin_checked_" + inp["fn"]] += 1
        if r[0] == "fail":
            report(r[1], inp, r[2])
        elif len(samples) < 1 and n == 2:
            samples.append(inp)

    # (ii) programs: fixed operator programs, then the seeded random tail
    def consider(inp):
        nonlocal evals
        evals += 1
        try:
            status, fails, info = check_program(inp)
        except Exception as ex:               # a bug of this oracle or an input it cannot build: never a finding
            parts["oracle_skipped_" + type(ex).__name__] += 1
            return
        if status == "builder-rejects":
            parts["programs_rejected_by_CodeBuilder"] += 1
            return
        if status != "ok":
            parts["programs_inference_fails_" + str(info.get("inference_error"))] += 1
            return
        parts["programs_inferred"] += 1
        parts["statements_executed"] += info.get("executed", 0)
        parts["stores_of_scalar_in_array_or_usertype_variable_accepted"] += info.get("promoted_stores", 0)
        parts["violations_inherited_from_an_operand_not_reported_again"] += info.get("inherited", 0)
        if info.get("stopped"):
            parts["programs_stopped_by_runtime_error"] += 1
        if info.get("executed"):
            distinct.add(json.dumps(inp, sort_keys=True))
        done = set()
        for clause, name, detail, data in fails:
            if (clause, name) in done:
                continue
            done.add((clause, name))
            report(clause, dict(inp, clause=clause, name=name), detail)

    for st in SEED_PROGRAMS:
        consider({"part": "program", "stmts": st, "steps": 2})
        parts["fixed_programs"] += 1
    # refinement chains: x gets a real and then a complex (or int and then real) value, copied down a chain;
    # the phase's statement list is presented in every order, so the refinement needs several sweeps
    import itertools
    for first, second in ((C(2.5), ["*", V("x"), C([0.0, 1.0])]), (C(2), ["*", V("x"), C(0.5)]), (C(2), ["*", V("x"), C([0.0, 1.0])])):
        chain = [{"k": "assign", "lhs": "x", "sub": None, "rhs": first, "loops": []},
                 {"k": "assign", "lhs": "x", "sub": None, "rhs": second, "loops": []},
                 {"k": "assign", "lhs": "y", "sub": None, "rhs": ["*", C(3), V("x")], "loops": []},
                 {"k": "assign", "lhs": "z", "sub": None, "rhs": ["*", C(2), V("y")], "loops": []},
                 {"k": "assign", "lhs": "w", "sub": None, "rhs": ["+", V("z"), C(1)], "loops": []}]
        for n in (4, 5):
            for perm in itertools.permutations(range(n)):
                consider({"part": "program", "stmts": chain[:n], "steps": 1, "order": list(perm)})
                parts["refinement_chain_orders"] += 1
    # keyword arguments written in another order than the function declares them; several results; an argument whose kind is
    # refined after the call statement was first inferred (every presentation order of the statement list)
    cA = {"k": "scall", "lhs": ["c"], "fn": "<func>carr", "args": [], "kw": []}
    for prog in ([cA, {"k": "assign", "lhs": "ct", "sub": None, "loops": [],
                       "rhs": ["callkw", "<builtin>transpose", [], [["a_cols", C(3)], ["a", V("c")]]]},
                  {"k": "assign", "lhs": "e", "sub": None, "loops": [],
                   "rhs": ["*", C(2), ["callkw", "<builtin>transpose", [], [["a_cols", C(1)], ["a", V("c")]]]]}],
                 [cA, {"k": "scall", "lhs": ["u", "sg", "vt"], "fn": "<builtin>svd", "args": [], "kw": [["a_cols", C(3)], ["a", V("c")]]}],
                 [cA, {"k": "scall", "lhs": ["u", "sg", "vt"], "fn": "<builtin>svd", "args": [V("c")], "kw": [["a_cols", C(3)]]},
                  {"k": "scall", "lhs": ["m"], "fn": "<builtin>matmul", "args": [],
                   "kw": [["b_cols", C(1)], ["a_cols", C(3)], ["b", V("c")], ["a", V("<state>w")]]}]):
        consider({"part": "program", "steps": 1, "stmts": prog})
        parts["keyword_order_and_multi_result_programs"] = parts.get("keyword_order_and_multi_result_programs", 0) + 1
    late = [{"k": "assign", "lhs": "z", "sub": None, "loops": [], "rhs": ["*", V("<state>w"), C([0.0, 0.5])]},
            {"k": "assign", "lhs": "w2", "sub": None, "loops": [], "rhs": ["+", V("<state>w"), V("z")]},
            {"k": "scall", "lhs": ["u", "sg", "vt"], "fn": "<builtin>svd", "args": [V("w2"), C(3)], "kw": []},
            {"k": "scall", "lhs": ["<state>w"], "fn": "<func>arr", "args": [], "kw": []}]
    for perm in itertools.permutations(range(4)):
        consider({"part": "program", "steps": 1, "stmts": late, "order": list(perm)})
        parts["keyword_order_and_multi_result_programs"] += 1
    # a sum first inferred from its scalar summand alone and refined to an array of the SAME realness one sweep later
    late2 = [{"k": "scall", "lhs": ["offs"], "fn": "<func>arr", "args": [], "kw": []},
             {"k": "assign", "lhs": "times", "sub": None, "loops": [], "rhs": ["+", V("<t>"), V("offs")]},
             {"k": "assign", "lhs": "twice", "sub": None, "loops": [], "rhs": ["*", C(2), V("times")]},
             {"k": "scall", "lhs": ["coffs"], "fn": "<func>carr", "args": [], "kw": []},
             {"k": "assign", "lhs": "ctimes", "sub": None, "loops": [], "rhs": ["+", C([0.0, 1.0]), V("coffs")]}]
    for perm in itertools.permutations(range(5)):
        consider({"part": "program", "steps": 1, "stmts": late2, "order": list(perm)})
        parts["keyword_order_and_multi_result_programs"] += 1
    # constants by TYPE: complex values with a zero imaginary part, numpy scalar types (complex64 is no subclass of complex)
    for c in (C([-4.0, 0.0]), C([0.0, 0.0]), ["npc", "complex64", [0.0, 1.0]], ["npc", "complex64", [2.0, 0.0]],
              ["npc", "complex128", [1.0, 0.0]], ["npc", "float32", 2.5], ["npc", "float64", -1.5], ["npc", "int64", 3]):
        consider({"part": "program", "steps": 1, "stmts": [
            {"k": "assign", "lhs": "lam", "sub": None, "rhs": c, "loops": []},
            {"k": "assign", "lhs": "z", "sub": None, "rhs": ["*", V("lam"), C(2.5)], "loops": []},
            {"k": "assign", "lhs": "w", "sub": None, "rhs": ["+", V("z"), V("<dt>")], "loops": []},
            {"k": "assign", "lhs": "u", "sub": None, "rhs": ["*", c, V("<t>")], "loops": []}]})
        parts["typed_constant_programs"] = parts.get("typed_constant_programs", 0) + 1
    for _ in range(nprog):
        if time.time() > deadline:
            parts["random_tail_cut_by_wall_clock"] = 1
            break
        inp = gen_program(rng)
        consider(inp)
        parts["random_programs"] += 1
        if len(samples) < 3:
            samples.append(inp)
    known_hits = []
    for e in payload.get("known", []) or []:
        try:
            r = replay(e["native"])
        except Exception:
            r = {}
        if r.get("fails"):
            known_hits.append("%s: %s" % (e["id"], e["what"]))
    return {"evaluations": evals, "distinct_nontrivial": len(distinct),
            "rule": "(i) every function of builtins_python.builtins x argument tuples from a catalogue of 10 value "
                    "sorts (int, float, numpy float, complex, bool, real/int/complex arrays, real/complex user-type "
                    "values; column arguments from 6 values); 4-argument functions every %d-th tuple; non-trivial = "
                    "accepted by get_result_kinds(check=True) and the implementation returned. (ii) %d fixed "
                    "one-operator programs, 3 refinement chains (x real then complex / int then real, copied down 2-3 links) "
                    "with the phase's statement list presented in all 24 / 120 orders, and seeded random CodeBuilder programs (2-8 statements incl. if/else, "
                    "loops, subscripted assignments, re-assignments; expressions of depth <=2 over + - * / ** < "
                    "min max, subscripts, built-ins, registered right-hand side and fixed-kind functions), kept when "
                    "infer_kinds succeeds; each executed for 2 steps statement by statement with the real "
                    "interpreter; non-trivial = inference succeeded and at least one statement executed"
                    % (stride, len(SEED_PROGRAMS)),
            "bound": "argument arrays of length 4 (2x2 matrices); programs <=8 top-level statements, depth <=2, "
                     "state of 3 entries, 2 steps",
            "samples": samples, "failures": sorted(failures, key=lambda f: bool(f["matches_fingerprints"]))[:20], "known_hits": known_hits, "parts": dict(parts),
            "exhaustive": False}
