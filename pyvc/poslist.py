"""Position view of a duplicate-free Python list (plans, topological orders).

A value is (M, pos, at, lo, hi): member set, position of each member, element
at each position, bounds.  Well-formedness (assumed for every value of the
type, and re-established by every operation — `append` carries the proof
obligation that the element is new):

    M[x]  =>  lo <= pos[x] < hi  and  at[pos[x]] == x
    lo <= k < hi  =>  M[at[k]]  and  pos[at[k]] == k
    lo <= hi

`pop(0)` is lo+1, `append` is hi+1: ordering facts are `pos[d] < pos[x]`, with
no index arithmetic under quantifiers and no nested existential.
"""
import ast
import z3
from z3 import And, Implies, ForAll, Select, Store

from .values import *  # noqa
from .engine import PathEnd


class TPosList(Ty):
    def __init__(self, elem):
        self.elem = elem
        self.msort = z3.ArraySort(elem.sort, z3.BoolSort())
        self.psort = z3.ArraySort(elem.sort, z3.IntSort())
        self.asort = z3.ArraySort(z3.IntSort(), elem.sort)
        self.sort = None

    def fresh(self, base="pl"):
        return VPosList(self,
                        z3.Const(fresh_name(base + "_M"), self.msort),
                        z3.Const(fresh_name(base + "_pos"), self.psort),
                        z3.Const(fresh_name(base + "_at"), self.asort),
                        z3.Int(fresh_name(base + "_lo")), z3.Int(fresh_name(base + "_hi")))

    def empty(self):
        return VPosList(self, z3.K(self.elem.sort, z3.BoolVal(False)),
                        z3.Const(fresh_name("pl_pos"), self.psort),
                        z3.Const(fresh_name("pl_at"), self.asort),
                        z3.IntVal(0), z3.IntVal(0))


class VPosList(V):
    def __init__(self, ty, M, pos, at, lo, hi):
        self.ty = ty
        self.M, self.pos, self.at, self.lo, self.hi = M, pos, at, lo, hi

    def __repr__(self):
        return "VPosList(%s..%s)" % (self.lo, self.hi)

    # ---- facts -----------------------------------------------------------
    def wf(self):
        x = z3.Const("x!pl", self.ty.elem.sort)
        k = z3.Int("k!pl")
        return [
            ForAll([x], Implies(Select(self.M, x),
                                And(self.lo <= Select(self.pos, x), Select(self.pos, x) < self.hi,
                                    Select(self.at, Select(self.pos, x)) == x))),
            ForAll([k], Implies(And(self.lo <= k, k < self.hi),
                                And(Select(self.M, Select(self.at, k)),
                                    Select(self.pos, Select(self.at, k)) == k))),
            self.lo <= self.hi,
        ]

    def fresh_like(self, ctx, base):
        v = self.ty.fresh(base)
        for f in v.wf():
            ctx.assume(f)
        return v

    def has(self, x):
        return Select(self.M, x)

    def before(self, x, y):
        return Select(self.pos, x) < Select(self.pos, y)

    def is_prefix_of(self, other):
        """self is a prefix of other (same lower bound)"""
        x = z3.Const("x!pp", self.ty.elem.sort)
        return And(self.lo == other.lo, self.hi <= other.hi,
                   ForAll([x], Implies(Select(self.M, x),
                                       And(Select(other.M, x), Select(other.pos, x) == Select(self.pos, x)))),
                   ForAll([x], Implies(And(Select(other.M, x), Select(other.pos, x) < self.hi),
                                       Select(self.M, x))))

    def same_as(self, other):
        x = z3.Const("x!ps", self.ty.elem.sort)
        return And(self.lo == other.lo, self.hi == other.hi, self.M == other.M,
                   ForAll([x], Implies(Select(self.M, x), Select(self.pos, x) == Select(other.pos, x))))

    # ---- engine protocol ----------------------------------------------------
    def truth(self, it):
        return self.hi > self.lo

    def length(self, it):
        return VInt(self.hi - self.lo)

    def contains(self, it, x):
        return Select(self.M, x.t)

    def as_set_term(self, ctx, ty):
        return self.M

    def binop(self, it, op, other, node):
        ctx = it.ctx
        if op is ast.Add and isinstance(other, VPosList):
            # concatenation of two duplicate-free lists: obligation that they are disjoint
            x = z3.Const("x!cat", self.ty.elem.sort)
            ctx.oblige(it.oname("concat-disjoint"),
                       ForAll([x], z3.Not(And(Select(self.M, x), Select(other.M, x)))))
            r = self.ty.fresh("cat")
            la = self.hi - self.lo
            ctx.assume(And(r.lo == 0, r.hi == la + (other.hi - other.lo)))
            ctx.assume(ForAll([x], Select(r.M, x) == z3.Or(Select(self.M, x), Select(other.M, x))))
            ctx.assume(ForAll([x], Implies(Select(self.M, x),
                                           Select(r.pos, x) == Select(self.pos, x) - self.lo)))
            ctx.assume(ForAll([x], Implies(Select(other.M, x),
                                           Select(r.pos, x) == la + Select(other.pos, x) - other.lo)))
            ctx.assume(ForAll([x], Implies(Select(r.M, x), Select(r.at, Select(r.pos, x)) == x)))
            k = z3.Int("k!cat")
            ctx.assume(ForAll([k], Implies(And(0 <= k, k < la), Select(r.at, k) == Select(self.at, k + self.lo))))
            ctx.assume(ForAll([k], Implies(And(la <= k, k < r.hi),
                                           Select(r.at, k) == Select(other.at, k - la + other.lo))))
            return ctx.alloc(r)
        raise Unsupported("binop on position list")

    def filter_comprehension(self, it, e):
        """[x for x in P if cond(x)]: the sub-list of the members satisfying cond, same relative order"""
        ctx = it.ctx
        gen = e.generators[0]
        if not (isinstance(gen.target, ast.Name) and isinstance(e.elt, ast.Name)
                and e.elt.id == gen.target.id):
            raise Unsupported("position-list comprehension that is not a filter")
        x = z3.Const(fresh_name("fx"), self.ty.elem.sort)
        saved = dict(ctx.env)
        n0 = len(ctx.pc)
        facts = []
        try:
            ctx.env[gen.target.id] = self.ty.elem.wrap(x)
            conds = []
            for c in gen.ifs:
                conds.append(it.truth(it.eval(c)))
            facts = ctx.pc[n0:]
            del ctx.pc[n0:]
        finally:
            ctx.env = saved
        if facts:
            raise Unsupported("impure filter condition")
        cond = And(*conds) if conds else z3.BoolVal(True)
        r = self.ty.fresh("filt")
        for f in r.wf():
            ctx.assume(f)
        y = z3.Const(fresh_name("fy"), self.ty.elem.sort)
        ctx.assume(r.lo == 0)
        ctx.assume(ForAll([x], Select(r.M, x) == And(Select(self.M, x), cond)))
        ctx.assume(ForAll([x, y], Implies(
            And(Select(r.M, x), Select(r.M, y)),
            (Select(r.pos, x) < Select(r.pos, y)) == (Select(self.pos, x) < Select(self.pos, y))))
            if False else
            ForAll([x, y], Implies(
                And(Select(r.M, x), Select(r.M, z3.substitute(y, (y, y)))),
                (Select(r.pos, x) < Select(r.pos, y)) == (Select(self.pos, x) < Select(self.pos, y)))))
        return ctx.alloc(r)

    def for_loop(self, it, s, k, spec, ex):
        L = self
        ctx = it.ctx
        ex["$L"] = L
        ex["$i"] = VInt(L.lo)

        def guard_fn():
            i = ex["$i"].t
            ctx.assume(And(i >= L.lo, i <= L.hi))
            return i < L.hi

        def prologue():
            it.assign(s.target, L.ty.elem.wrap(Select(L.at, ex["$i"].t)))

        def epilogue():
            ex["$i"] = VInt(z3.simplify(ex["$i"].t + 1))

        it.run_cut_loop(s, k, spec, guard_fn, prologue, epilogue, lambda: None)


def _m_append(ctx, it, obj, args, kw):
    o = ctx.deref(obj)
    x = ctx.deref(args[0]).t
    ctx.oblige(it.oname("append-keeps-duplicate-free"), z3.Not(Select(o.M, x)))
    ctx.store(obj, VPosList(o.ty, Store(o.M, x, True), Store(o.pos, x, o.hi), Store(o.at, o.hi, x),
                            o.lo, z3.simplify(o.hi + 1)))
    return NONE


def _m_pop(ctx, it, obj, args, kw):
    o = ctx.deref(obj)
    if not ctx.branch(o.hi > o.lo, "pop"):
        ctx.raise_("IndexError")
    if args:
        i = ctx.deref(args[0])
        if not (z3.is_int_value(i.t) and i.t.as_long() == 0):
            raise Unsupported("pop(i) on position list")
        x = Select(o.at, o.lo)
        ctx.store(obj, VPosList(o.ty, Store(o.M, x, False), o.pos, o.at, z3.simplify(o.lo + 1), o.hi))
        return o.ty.elem.wrap(x)
    x = Select(o.at, o.hi - 1)
    ctx.store(obj, VPosList(o.ty, Store(o.M, x, False), o.pos, o.at, o.lo, z3.simplify(o.hi - 1)))
    return o.ty.elem.wrap(x)


VPosList.methods = {"append": _m_append, "pop": _m_pop}
