"""C16 — fusing two methods runs both on shared persistent state without interference.

Functions under contract (read from /repo on every run):
  dagrt/transform.py: fuse_two_phases, fuse_two_dags            (relative to A-FUSE)
  dagrt/language.py: StatementBase / ConditionalStatementBase / AssignBase / Assign / YieldState /
      AssignFunctionCall .map_expressions     (renaming reaches every occurrence; also C08's identity clause)
"""
import ast as pyast
import z3
from z3 import And, Or, Not, Implies, ForAll, Select, Store, If, IntSort, BoolSort

from pyvc.values import *  # noqa
from pyvc.engine import Obligation
from pyvc.contracts import Unit, FunctionContract, FunctionUnit, LemmaUnit
from pyvc import extract
from .dagspec import VarName, VARNAME, PName, PNAME
from .c08 import (Expr, EXPR, S8, STMT8, LL, VLL, f_cond, f_lhs, f_rhs, f_time, f_expression, f_loops, f_npar, f_par,
                  f_kwdom, f_kwval, f_nasg, f_asg, f_funcid, e_name, is_variable, unfold_ll)

PROP = "C16"
LANG = "dagrt/language.py"
TR = "dagrt/transform.py"

M = z3.Function("mapper", Expr, Expr)            # the mapper handed to map_expressions
VARE = z3.Function("Variable", VarName, Expr)    # pymbolic Variable(name)
include_lhs = z3.Bool("include_lhs")

ALL_FIELDS = [f_cond, f_lhs, f_rhs, f_time, f_expression, f_loops, f_npar, f_par, f_kwdom, f_kwval, f_nasg, f_asg, f_funcid]
FIELD_OF_KW = {"condition": f_cond, "lhs": f_lhs, "rhs": f_rhs, "time": f_time, "expression": f_expression,
               "loops": f_loops, "function_id": f_funcid}


def mapped_name(n):
    """mapper(Variable(n)).name"""
    return e_name(M(VARE(n)))


def _copy(ctx, it, obj, args, kw):
    """Record.copy(**kwargs): a record whose named fields are the given values, all others unchanged"""
    s = ctx.deref(obj).t
    r = z3.Const(fresh_name("copied"), S8)
    touched = set()
    for name, v in kw.items():
        v = ctx.deref(v)
        if name in FIELD_OF_KW:
            fld = FIELD_OF_KW[name]
            ctx.assume(fld(r) == v.t)
            touched.add(fld)
        elif name == "assignees" and isinstance(v, (VNames, VList)):
            ctx.assume(And(f_nasg(r) == v.n, f_asg(r) == v.a))
            touched.update([f_nasg, f_asg])
        elif name == "parameters" and isinstance(v, VMappedCall):
            ctx.assume(And(f_npar(r) == v.npar, f_par(r) == v.par))
            touched.update([f_npar, f_par])
        elif name == "kw_parameters" and isinstance(v, VMappedCall):
            ctx.assume(And(f_kwdom(r) == v.kwdom, f_kwval(r) == v.kwval))
            touched.update([f_kwdom, f_kwval])
        else:
            raise Unsupported("copy(%s=%r)" % (name, v))
    for fld in ALL_FIELDS:
        if fld not in touched:
            ctx.assume(fld(r) == fld(s))
    return STMT8.wrap(r)


STMT8.methods["copy"] = _copy


class VNames(V):
    ty = None

    def __init__(self, n, a):
        self.n, self.a = n, a


class VMappedCall(V):
    """mapper(self.as_expression()) for a CallWithKwargs: function, parameters, kw_parameters mapped"""
    ty = None

    def __init__(self, s):
        j = z3.Int("j")
        k = z3.Const("k", VarName)
        self.fname = mapped_name(f_funcid(s))
        self.npar = f_npar(s)
        self.par = z3.Const(fresh_name("mapped_par"), f_par(s).sort())
        self.kwdom = f_kwdom(s)
        self.kwval = z3.Const(fresh_name("mapped_kw"), f_kwval(s).sort())
        self.facts = [ForAll([j], Implies(And(0 <= j, j < f_npar(s)), Select(self.par, j) == M(Select(f_par(s), j)))),
                      ForAll([k], Implies(Select(f_kwdom(s), k), Select(self.kwval, k) == M(Select(f_kwval(s), k))))]


class MapExprs(FunctionContract):
    """X.map_expressions(mapper, include_lhs): the fields this class owns are mapped, everything
    else is what super().map_expressions returns"""
    prop = PROP
    relpath = LANG

    def __init__(self, qualname, super_post, post, variant="", identity=False):
        self.qualname = qualname
        self.super_post = super_post      # (s, s1) -> [formulas] known about super()'s result s1
        self.post = post                  # (s, r) -> [(name, formula)]
        self.variant_name = variant + (",identity-mapper" if identity else "")
        self.s = z3.Const("self_stmt", S8)
        self.identity = identity
        if identity:
            self.prop = "C08"

    @property
    def axioms(self):
        """C08's clause is about the identity mapper only: with it a field that is not mapped at all is unchanged too"""
        if not self.identity:
            return ()
        e = z3.Const("e", Expr)
        n = z3.Const("n", VarName)
        l = z3.Const("l", LL)
        a = z3.Const("a", z3.ArraySort(IntSort(), VarName))
        return (ForAll([e], M(e) == e), ForAll([n], mapped_name(n) == n), ForAll([n], e_name(VARE(n)) == n),
                ForAll([l], MAPL(l) == l), ForAll([a], MAPPED_ASG(a) == a))

    def params(self, ctx):
        ctx.env["self"] = STMT8.wrap(self.s)
        ctx.env["mapper"] = VFunc("mapper", self.m_mapper)
        ctx.env["include_lhs"] = VBool(include_lhs)
        for f in unfold_ll(f_loops(self.s)):
            ctx.assume(f)

    def m_mapper(self, ctx, it, args, kw):
        e = ctx.deref(args[0])
        if isinstance(e, VElem) and e.ty is EXPR:
            return EXPR.wrap(M(e.t))
        if isinstance(e, VAsExpr):
            v = VMappedCall(e.s)
            for f in v.facts:
                ctx.assume(f)
            return v
        raise Unsupported("mapper(%r)" % (e,))

    def m_super(self, ctx, it, args, kw):
        s1 = z3.Const(fresh_name("super_result"), S8)
        for f in self.super_post(self.s, s1):
            ctx.assume(f)
        return STMT8.wrap(s1)

    calls = property(lambda self: {"super().map_expressions": self.m_super,
                                   "self.as_expression": lambda ctx, it, a, k: VAsExpr(self.s),
                                   "self._map_loop_identifier": self.m_map_ident})

    def m_map_ident(self, ctx, it, args, kw):
        # Assign._map_loop_identifier(mapper, ident) = mapper(Variable(ident)).name  (own unit below)
        return VARNAME.wrap(mapped_name(ctx.deref(args[1]).t))

    names = property(lambda self: {
        "Variable": VFunc("Variable", lambda ctx, it, a, k: EXPR.wrap(VARE(ctx.deref(a[0]).t))),
        "CallWithKwargs": VClass("CallWithKwargs"),
        "tuple": VFunc("tuple", lambda ctx, it, a, k: a[0]),
        "all": VFunc("all", lambda ctx, it, a, k: VBool(True)),
    })

    def isinstance_hook(self, ctx, it, obj, names):
        if isinstance(obj, VMappedCall):
            return VBool(True)        # A-ID/A-SUBST: a mapped CallWithKwargs is a CallWithKwargs
        if isinstance(obj, VElem) and obj.ty is EXPR and names == ["Variable"]:
            return VBool(is_variable(obj.t))
        return None

    def getattr_hook(self, ctx, it, obj, name):
        o = ctx.deref(obj)
        if isinstance(o, VMappedCall):
            if name == "function":
                return VObj(TObj("fn", {}), {"name": VARNAME.wrap(o.fname)})
            if name in ("parameters", "kw_parameters"):
                return o
        return None

    # comprehensions: the element expression is evaluated for an arbitrary element
    def comp_loops(self, ctx, it, e):
        i0 = z3.Const(fresh_name("ident"), VarName)
        a0, b0 = z3.Const(fresh_name("start"), Expr), z3.Const(fresh_name("end"), Expr)
        saved = dict(ctx.env)
        try:
            for t, v in zip(e.generators[0].target.elts, [VARNAME.wrap(i0), EXPR.wrap(a0), EXPR.wrap(b0)]):
                ctx.env[t.id] = v
            tup = ctx.deref(it.eval(e.elt))
        finally:
            ctx.env = saved
        got = [ctx.deref(x).t for x in tup.items]
        ctx.oblige(it.oname("loops/identifier-is-renamed-with-its-uses"),
                   got[0] == If(include_lhs, mapped_name(i0), i0))
        ctx.oblige(it.oname("loops/bounds-are-mapped"), And(got[1] == M(a0), got[2] == M(b0)))
        return VLL(MAPL(f_loops(self.s)))

    def comp_assignees(self, ctx, it, e):
        """tuple(mapper(Variable(assignee)) for assignee in self.assignees) / (lhs.name for lhs in lhss)"""
        key = pyast.unparse(e)
        s = self.s
        if "mapper(Variable(assignee))" in key:
            return VNames(f_nasg(s), MAPPED_ASG(f_asg(s)))
        src = ctx.deref(it.eval(e.generators[0].iter))
        return src

    comprehensions = property(lambda self: {
        pyast.unparse(c): (self.comp_loops if "self.loops" in pyast.unparse(c) else self.comp_assignees)
        for c in _comprehensions_of(LANG, self.qualname)})

    def ensures(self, st):
        return self.post(self.s, st.result.t)


class VAsExpr(V):
    ty = None

    def __init__(self, s):
        self.s = s


MAPL = z3.Function("map_loops", LL, LL)
MAPPED_ASG = z3.Function("map_assignee_names", z3.ArraySort(IntSort(), VarName), z3.ArraySort(IntSort(), VarName))


def _comprehensions_of(relpath, qualname):
    ex = extract.load_function(relpath, qualname)
    return [n for n in pyast.walk(ex.node) if isinstance(n, (pyast.ListComp, pyast.GeneratorExp, pyast.DictComp, pyast.SetComp))]


def same_except(s, r, fields):
    return [fld(r) == fld(s) for fld in ALL_FIELDS if fld not in fields]


# composed posts along the class chain of Assign (StatementBase <- AssignBase <- ConditionalStatementBase <- Assign)
def post_assignbase(s, r):
    return [f_rhs(r) == M(f_rhs(s)), f_lhs(r) == If(include_lhs, M(f_lhs(s)), f_lhs(s))] + same_except(s, r, [f_rhs, f_lhs])


def post_cond_assign(s, r):
    return [f_cond(r) == M(f_cond(s)), f_rhs(r) == M(f_rhs(s)), f_lhs(r) == If(include_lhs, M(f_lhs(s)), f_lhs(s))] \
        + same_except(s, r, [f_cond, f_rhs, f_lhs])


def post_cond_only(s, r):
    return [f_cond(r) == M(f_cond(s))] + same_except(s, r, [f_cond])


def named(prefix, formulas):
    return [("%s[%d]" % (prefix, i), f) for i, f in enumerate(formulas)]


def identity_lemma():
    """C08's identity clause: with mapper(e) == e for every e, every field of the result equals the
    original's, hence get_read_variables / get_written_variables (functions of the fields) agree"""
    s, r = z3.Consts("s r", S8)
    e = z3.Const("e", Expr)
    n = z3.Const("n", VarName)
    ident = [ForAll([e], M(e) == e), ForAll([n], e_name(VARE(n)) == n)]
    items = []
    for label, post in (("Assign", lambda s_, r_: post_cond_assign(s_, r_)), ("YieldState", lambda s_, r_: post_cond_only(s_, r_) )):
        items.append(("identity-mapper-changes-no-field[%s]" % label, ident + post(s, r),
                      And(f_cond(r) == f_cond(s), f_lhs(r) == f_lhs(s), f_rhs(r) == f_rhs(s))))
    return [], items


# ==========================================================================
# fuse_two_phases / fuse_two_dags   (relative to A-FUSE)
# ==========================================================================
Pred = z3.DeclareSort("Pred")          # a name predicate (callable str -> bool)
PhaseO = z3.Datatype("OptPhase")
PhaseS = z3.DeclareSort("PhaseRec")
PhaseO.declare("NoPhase")
PhaseO.declare("SomePhase", ("ph", PhaseS))
PhaseO = PhaseO.create()
ph_next = z3.Function("phase_next_phase", PhaseS, PName)
FUSED = z3.Function("A_FUSE_result", PhaseS, PhaseS, Pred, PhaseS)    # ExecutionPhase(name1, next1, fused statements)


class VPhaseOpt(V):
    ty = None

    def __init__(self, t):
        self.t = t

    def is_none(self):
        return PhaseO.is_NoPhase(self.t)


class FusePhases(FunctionContract):
    prop = PROP
    relpath = TR
    qualname = "fuse_two_phases"

    def __init__(self):
        self.p1 = z3.Const("phase1", PhaseO)
        self.p2 = z3.Const("phase2", PhaseO)
        self.pred = z3.Const("should_disambiguate_name", Pred)

    def params(self, ctx):
        ctx.env["phase_name"] = VPy("<phase_name>")
        ctx.env["phase1"] = VPhaseOpt(self.p1)
        ctx.env["phase2"] = VPhaseOpt(self.p2)
        ctx.env["should_disambiguate_name"] = VPredV(self.pred)
        ctx.ghost["fuse_args"] = None

    def getattr_hook(self, ctx, it, obj, name):
        o = ctx.deref(obj)
        if isinstance(o, VPhaseOpt):
            if not ctx.branch(PhaseO.is_SomePhase(o.t), "phase-not-None"):
                ctx.raise_("AttributeError")
            if name == "next_phase":
                return PNAME.wrap(ph_next(PhaseO.ph(o.t)))
            if name in ("statements", "name"):
                return VStmts(PhaseO.ph(o.t), name)
        return None

    def m_fuse(self, ctx, it, args, kw):
        """A-FUSE: pymbolic.imperative.transform.disambiguate_and_fuse(a, b, pred)"""
        a = ctx.deref(args[0])
        b = ctx.deref(args[1])
        pred = ctx.deref(args[2]) if len(args) > 2 else ctx.deref(kw["should_disambiguate_name"]) \
            if "should_disambiguate_name" in kw else None
        ctx.oblige(it.oname("the-callers-name-predicate-reaches-disambiguate_and_fuse"),
                   z3.BoolVal(isinstance(pred, VPredV)) if not isinstance(pred, VPredV) else pred.t == self.pred)
        ctx.oblige(it.oname("first-method-first"), z3.BoolVal(
            isinstance(a, VStmts) and isinstance(b, VStmts) and a.what == b.what == "statements"
            and a.p.eq(PhaseO.ph(self.p1)) and b.p.eq(PhaseO.ph(self.p2))))
        ctx.ghost["fuse_args"] = True
        return VTuple([VStmts(FUSED(PhaseO.ph(self.p1), PhaseO.ph(self.p2), self.pred), "fused"), VPy("<subst>"), VPy("<idmap>")])

    def m_phase(self, ctx, it, args, kw):
        st = ctx.deref(kw["statements"])
        nm = ctx.deref(kw["name"])
        nx = ctx.deref(kw["next_phase"])
        r = z3.Const(fresh_name("new_phase"), PhaseS)
        ctx.assume(ph_next(r) == nx.t)
        ctx.ghost["built_from"] = (st, nm)
        return VPhaseOpt(PhaseO.SomePhase(r))

    names = property(lambda self: {"disambiguate_and_fuse": VFunc("disambiguate_and_fuse", self.m_fuse),
                                   "ExecutionPhase": VFunc("ExecutionPhase", self.m_phase)})

    def binop_hook(self, ctx, it, op, a, b):
        if op is pyast.Mod and isinstance(a, VPy):
            return VPy("<message>")
        return None

    def ensures(self, st):
        both = And(PhaseO.is_SomePhase(self.p1), PhaseO.is_SomePhase(self.p2))
        r = st.result.t
        return [("one-sided-phase-is-copied", And(Implies(And(PhaseO.is_SomePhase(self.p1), PhaseO.is_NoPhase(self.p2)), r == self.p1),
                                                  Implies(And(PhaseO.is_NoPhase(self.p1), PhaseO.is_SomePhase(self.p2)), r == self.p2))),
                ("fused-phase-keeps-the-common-default-successor",
                 Implies(both, And(PhaseO.is_SomePhase(r), ph_next(PhaseO.ph(r)) == ph_next(PhaseO.ph(self.p1)),
                                   ph_next(PhaseO.ph(self.p1)) == ph_next(PhaseO.ph(self.p2)))))]

    @property
    def raises(self):
        def ve(st):
            both = And(PhaseO.is_SomePhase(self.p1), PhaseO.is_SomePhase(self.p2))
            return [("ValueError-only-for-differing-default-successors-or-no-phase",
                     Or(And(both, ph_next(PhaseO.ph(self.p1)) != ph_next(PhaseO.ph(self.p2))),
                        And(PhaseO.is_NoPhase(self.p1), PhaseO.is_NoPhase(self.p2))))]
        return {"ValueError": ve}


class VStmts(V):
    ty = None

    def __init__(self, p, what):
        self.p, self.what = p, what


class VPredV(V):
    ty = None

    def __init__(self, t):
        self.t = t

    def is_none(self):
        return self.t == NONE_PRED


NONE_PRED = z3.Const("None_predicate", Pred)
DEFAULT_PRED = z3.Const("keep_persistent_names_shared", Pred)    # lambda name: not is_state_variable(name)


class FuseDags(FunctionContract):
    prop = PROP
    relpath = TR
    qualname = "fuse_two_dags"

    def __init__(self):
        self.pred = z3.Const("should_disambiguate_name", Pred)
        self.d1 = z3.Const("phases1_dom", z3.ArraySort(PName, BoolSort()))
        self.d2 = z3.Const("phases2_dom", z3.ArraySort(PName, BoolSort()))
        self.v1 = z3.Const("phases1_val", z3.ArraySort(PName, PhaseS))
        self.v2 = z3.Const("phases2_val", z3.ArraySort(PName, PhaseS))
        self.i1 = z3.Const("initial1", PName)
        self.i2 = z3.Const("initial2", PName)
        self.result_ty = TDict(PNAME, TElem("OptPhase", PhaseO))

    def params(self, ctx):
        ctx.env["dag1"] = VDag(self.d1, self.v1, self.i1)
        ctx.env["dag2"] = VDag(self.d2, self.v2, self.i2)
        ctx.env["phase_correspondences"] = NONE
        ctx.env["should_disambiguate_name"] = VPredV(self.pred)

    def type_of_literal(self, node):
        return self.result_ty

    def getattr_hook(self, ctx, it, obj, name):
        o = ctx.deref(obj)
        if isinstance(o, VDag):
            if name == "phases":
                return VDagPhases(o)
            if name == "initial_phase":
                return PNAME.wrap(o.init)
        return None

    def st_nested(self):
        pass

    def m_frozenset(self, ctx, it, args, kw):
        o = ctx.deref(args[0])
        return VSet(TSet(PNAME), o.dag.dom)

    def m_fuse_phases(self, ctx, it, args, kw):
        name = ctx.deref(args[0]).t
        p1, p2 = ctx.deref(args[1]), ctx.deref(args[2])
        pred = ctx.deref(args[3]) if len(args) > 3 else ctx.deref(kw.get("should_disambiguate_name", NONE))
        want = If(self.pred == NONE_PRED, DEFAULT_PRED, self.pred)
        ctx.oblige(it.oname("name-predicate-handed-on(default:persistent-names-stay-shared)"),
                   pred.t == want if isinstance(pred, VPredV) else z3.BoolVal(False))
        ctx.oblige(it.oname("phases-of-the-same-name-are-fused"),
                   And(p1.t == If(Select(self.d1, name), PhaseO.SomePhase(Select(self.v1, name)), PhaseO.NoPhase),
                       p2.t == If(Select(self.d2, name), PhaseO.SomePhase(Select(self.v2, name)), PhaseO.NoPhase)))
        if ctx.choose(2, "fuse_two_phases-raises") == 0:
            ctx.raise_("ValueError")
        return TElem("OptPhase", PhaseO).wrap(PHASE_FUSED(name))

    def nested_pred(self, ctx, it, args, kw):
        raise Unsupported("nested default predicate is not executed")

    def st_FunctionDef_hook(self):
        pass

    names = property(lambda self: {"frozenset": VFunc("frozenset", self.m_frozenset),
                                   "fuse_two_phases": VFunc("fuse_two_phases", self.m_fuse_phases),
                                   "DAGCode": VFunc("DAGCode", lambda ctx, it, a, k: VNewDag(ctx.deref(a[0]), ctx.deref(a[1]).t))})
    # `def should_disambiguate_name(name): return not is_state_variable(name)` rebinds the parameter to the default
    @property
    def nested(self):
        # the nested def must literally be the documented default: persistent names stay shared
        ex = extract.load_function(TR, "fuse_two_dags")
        defs = [n for n in pyast.walk(ex.node) if isinstance(n, pyast.FunctionDef) and n.name == "should_disambiguate_name"]
        if len(defs) != 1 or pyast.unparse(defs[0].body[0] if len(defs[0].body) == 1 else defs[0]) != "return not is_state_variable(name)":
            raise Unsupported("nested default predicate is not `return not is_state_variable(name)`")
        return {"should_disambiguate_name": VPredV(DEFAULT_PRED)}

    def inv(self, s):
        n = z3.Const("n", PName)
        R = s.new_phases
        proc = s.loop(0)["$proc"].t
        return [("one-fused-phase-per-processed-name",
                 ForAll([n], Select(R.dom, n) == Select(proc, n))),
                ("each-is-the-fusion-of-the-phases-of-that-name",
                 ForAll([n], Implies(Select(proc, n), Select(R.val, n) == PHASE_FUSED(n)))),
                ("iterating-the-union-of-names", ForAll([n], Select(s.loop(0)["$S"].t, n) == Or(Select(self.d1, n), Select(self.d2, n))))]

    loops = property(lambda self: {0: dict(shape="for phase_name in frozenset(dag1.phases) | frozenset(dag2.phases)", inv=self.inv)})

    def ensures(self, st):
        n = z3.Const("n", PName)
        r = st.result
        return [("phases-are-the-union-of-names", ForAll([n], Select(r.phases.dom, n) == Or(Select(self.d1, n), Select(self.d2, n)))),
                ("same-initial-phase", And(r.init == self.i1, self.i1 == self.i2))]

    raises = {"ValueError": lambda st: []}


PHASE_FUSED = z3.Function("fused_phase_of_name", PName, PhaseO)


class VDag(V):
    ty = None

    def __init__(self, dom, val, init):
        self.dom, self.val, self.init = dom, val, init


class VDagPhases(V):
    ty = None

    def __init__(self, dag):
        self.dag = dag

    methods = {}


def _phases_get(ctx, it, obj, args, kw):
    o = ctx.deref(obj)
    n = ctx.deref(args[0]).t
    return VPhaseOpt(If(Select(o.dag.dom, n), PhaseO.SomePhase(Select(o.dag.val, n)), PhaseO.NoPhase))


VDagPhases.methods = {"get": _phases_get}


class VNewDag(V):
    ty = None

    def __init__(self, phases, init):
        self.phases, self.init = phases, init


OWNED = {   # which expression-valued fields each class's map_expressions is responsible for
    "StatementBase": [],
    "AssignBase": ["lhs", "rhs"],
    "ConditionalStatementBase": ["condition"],
    "ConditionalAssignment": ["condition"],
    "Assign": ["loops"],
    "YieldState": ["expression", "time"],
    "AssignFunctionCall": ["call"],
}


def field_post(fields, s, r):
    """what a result r must satisfy when exactly `fields` were mapped on top of s"""
    out = []
    touched = []
    if "condition" in fields:
        out.append(f_cond(r) == M(f_cond(s))); touched.append(f_cond)
    if "lhs" in fields:
        out.append(f_lhs(r) == If(include_lhs, M(f_lhs(s)), f_lhs(s))); touched.append(f_lhs)
    if "rhs" in fields:
        out.append(f_rhs(r) == M(f_rhs(s))); touched.append(f_rhs)
    if "expression" in fields:
        out.append(f_expression(r) == M(f_expression(s))); touched.append(f_expression)
    if "time" in fields:
        out.append(f_time(r) == M(f_time(s))); touched.append(f_time)
    if "loops" in fields:
        out.append(f_loops(r) == MAPL(f_loops(s))); touched.append(f_loops)
    return out, touched


def chain(cls):
    """classes of cls's MRO (read from the source) that define map_expressions, in MRO order"""
    tree, _ = extract.parse_module(LANG)
    classes = {n.name: n for n in pyast.walk(tree) if isinstance(n, pyast.ClassDef)}
    out = []
    for c in extract.mro(LANG, cls):
        node = classes.get(c)
        if node is not None and any(isinstance(st, pyast.FunctionDef) and st.name == "map_expressions" for st in node.body):
            out.append(c)
    return out


def chain_units(cls, required, extra_post=None, identity=False):
    """one unit per map_expressions along the chain of `cls`; super() of each enters by the composed
    post of the rest of the chain; the top one must map every field in `required`"""
    ch = chain(cls)
    us = []
    for i, c in enumerate(ch):
        below = [f for d in ch[i + 1:] for f in OWNED.get(d, [])]
        upto = [f for d in ch[i:] for f in OWNED.get(d, [])]

        def super_post(s, s1, below=below, rest=tuple(ch[i + 1:])):
            if not below:
                return [s1 == s]
            eqs, touched = field_post(below, s, s1)
            return eqs + same_except(s, s1, touched + ([f_npar, f_par, f_kwdom, f_kwval, f_nasg, f_asg, f_funcid] if "call" in below else []))

        want = upto if i > 0 else sorted(set(upto) | set(required))

        def post(s, r, want=want, top=(i == 0)):
            eqs, _ = field_post([f for f in want if f != "call"], s, r)
            out = named("%s-mapped" % "-".join(f for f in want if f != "call"), eqs) if eqs else [("returns-a-statement", z3.BoolVal(True))]
            if top and extra_post is not None:
                out += extra_post(s, r)
            return out
        if c == "StatementBase":
            us.append(FunctionUnit(MapExprs("StatementBase.map_expressions", lambda s, s1: [], lambda s, r: [("returns-self", r == s)],
                                            variant="in-chain-of-" + cls, identity=identity)))
        else:
            us.append(FunctionUnit(MapExprs(c + ".map_expressions", super_post, post, variant="in-chain-of-" + cls,
                                            identity=identity)))
    return us


def call_post(s, r):
    j = z3.Int("j")
    k = z3.Const("k", VarName)
    return [("function-renamed", f_funcid(r) == mapped_name(f_funcid(s))),
            ("every-positional-argument-mapped",
             ForAll([j], Implies(And(0 <= j, j < f_npar(s)), Select(f_par(r), j) == M(Select(f_par(s), j))))),
            ("every-keyword-argument-mapped",
             ForAll([k], Implies(Select(f_kwdom(s), k), Select(f_kwval(r), k) == M(Select(f_kwval(s), k))))),
            ("assignees-renamed", f_asg(r) == If(include_lhs, MAPPED_ASG(f_asg(s)), f_asg(s)))]


def map_expressions_units(identity=False):
    """the map_expressions chains and the identity lemma (C16; with identity=True: C08's last sentence, where the
    mapper is the identity, so that a change which merely stops mapping a field - a C16 matter - is not reported as a
    violation of C08)"""
    us = []
    # renaming must reach guard, lhs, rhs, loop identifiers and bounds of an Assign ...
    us += chain_units("Assign", ["condition", "lhs", "rhs", "loops"], identity=identity)
    # ... guard, yielded value and time of a YieldState ...
    us += chain_units("YieldState", ["condition", "expression", "time"], identity=identity)
    # ... guard, function, arguments and assignees of an AssignFunctionCall
    us += chain_units("AssignFunctionCall", ["condition"], extra_post=call_post, identity=identity)
    us += [LemmaUnit("lemma:identity-map(C08)", identity_lemma)]
    # ... and the guard of the statements that hold nothing but a guard.  Their map_expressions is inherited (resolution
    # read from the source); a class that defines its own gets that method under the same contract
    for cls in ("Raise", "FailStep", "SwitchPhase"):
        ch = chain(cls)
        if ch and ch[0] == "ConditionalStatementBase":
            us.append(ResolvesTo(cls, ch[0]))
        else:
            us += chain_units(cls, ["condition"], identity=identity)
    return us


class ResolvesTo(Unit):
    def __init__(self, cls, base):
        self.cls, self.base = cls, base
        self.label = "resolution:%s.map_expressions" % cls

    def generate(self):
        ob = Obligation("%s/is-%s.map_expressions(guard-mapped:-proved-in-the-chain-of-YieldState)" % (self.label, self.base), [],
                        z3.BoolVal(True))
        ob.external = {"ok": True, "seconds": 0.0, "backend": "MRO read from the source",
                       "output": "%s inherits map_expressions from %s" % (self.cls, self.base)}
        return [], [ob], {"class": self.cls, "resolves_to": self.base}


def units():
    us = map_expressions_units()
    us += [FunctionUnit(FusePhases()), FunctionUnit(FuseDags())]
    # A-FUSE finds the names used by a method through get_read_variables / get_written_variables: the declared
    # sets (C08) are functions this property depends on
    from . import c08
    us += c08.declared_side_units()      # what the interpreter really reads is C08's / C02's subject, not fusion's
    # every statement of the fused description is built through StatementBase.__init__ (copy(id=..., depends_on=...)):
    # the dependencies it records are the ones it was given
    from . import stmtinit
    us += stmtinit.units(PROP)
    # fuse_two_dags' default predicate is `not is_state_variable(name)`: which names count as shared state is that function's
    # contract (stated in C13's module, where the storage classes depend on it too)
    from . import c13
    us.append(FunctionUnit(c13.IsStateVariable()))
    return us


LEVEL = "proof"
BOUNDED = {"quick": {"timeout_s": 90}, "thorough": {"timeout_s": 900}}
TRUSTED_BASE = [
    "A-FUSE: pymbolic.imperative.transform.disambiguate_and_fuse(a, b, pred): ids of the result unique, a unchanged, every b statement once with dependencies mapped through the id renaming, every name used by both streams with pred(name) true renamed in b (through stmt.map_expressions(SubstitutionMapper)) to a name used by neither, no other name changes; pred None = always",
    "A-SUBST: a pymbolic mapper applied to a CallWithKwargs returns a CallWithKwargs with function, parameters and keyword values mapped; applied to Variable(n) it returns a Variable",
    "pytools Record.copy(**kw) changes exactly the named fields",
    __import__("contracts.stmtinit", fromlist=["TRUSTED"]).TRUSTED,
    "super() follows the MRO computed from the ClassDef bases (chains are recomputed on every run)",
]
ASSUMPTIONS = [
    "the clause 'executing the fused description yields for each method the same persistent results as running it alone when they write disjoint persistent variables' is decided by: renaming reaches every occurrence (proved), temporaries get disjoint names (A-FUSE), no shared written variable => no conflict => L-PERM/C02; the end-to-end statement is covered by the bounded stand-in (fused vs separate runs on the real interpreter)",
    "comprehension element expressions are verified for an arbitrary element (the comprehension itself = map over the list is a builtin schema)",
]
EXPLANATION = ("Every map_expressions along the class chains of Assign, YieldState and AssignFunctionCall (chains read from the source each "
               "run) is executed symbolically with an arbitrary mapper M: the composed result is proved to have guard, lhs, rhs, loop "
               "identifiers (as M(Variable(i)).name) and bounds, yielded value and time, function id, positional and keyword arguments and "
               "assignees all mapped, every other field unchanged; with M = identity no field changes (C08's identity clause). "
               "fuse_two_phases is proved to hand the caller's name predicate to disambiguate_and_fuse with the first method first, to copy "
               "one-sided phases, to raise ValueError exactly for differing default successors; fuse_two_dags to fuse the phases of equal "
               "name over the union of names, to default the predicate to 'not is_state_variable' and to require equal initial phases.")
