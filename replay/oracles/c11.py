"""Native oracle for C11 (a failing user function leaves the stepper consistent and resumable).

Drives the REAL NumpyInterpreter and the class produced by the REAL Python code generator on builder
programs (same JSON program format as replay/oracles/c01.py, see there) whose user functions are
wrapped so that one designated call raises a chosen exception.

Input (JSON):
  {"program": <c01 input: phases, initial, funcs, state, t0, dt; "run"/"cap" are ignored>,
   "fault": {"func": "<func>f", "k": int>=1, "step": int>=0, "exc": <name in EXCEPTIONS>},
   "mode": "run" | "single",        # drive with run(max_steps=..) or with run_single_step() + caller protocol
   "more": int}                     # steps to run after the failure (resumability)
"step" counts begun steps (a failed step counts), "k" counts the calls of `func` inside that step in the
order in which the stepper under test performs them.

Checked for BOTH back ends, whenever the fault fires (otherwise the input is trivial):
  same-exception       the very exception object raised by the function leaves run()/run_single_step()
  no-temporaries       interpreter: every key of `context` is persistent (<state>*, <p>*, <t>, <dt>);
                       generated: the object has no attribute besides persistent variables and plumbing
  old-or-assigned      every persistent variable (array: every element) holds its value from before the
                       step or a value that the program, carried out in program order, assigns to it in
                       that step by a write that does not depend on the failed call
  dependent-unchanged  a variable whose writes in that step all depend on the failed call (data or
                       control dependence, computed by a taint-tracking program-order executor), or that
                       is not written at all, is unchanged
  resumable            `more` further steps from the failed stepper give exactly the events, states and
                       phases of a fresh stepper object started in the same state and phase
"""
import copy
import json
import os
import random
import subprocess
import sys
import time

import numpy as np

from dagrt.exec_numpy import FailStepException, TransitionEvent

from replay.oracles import c01 as B


class InjectedFault(Exception):
    pass


class InjectedBase(BaseException):
    pass


EXCEPTIONS = {"ValueError": ValueError, "KeyError": KeyError, "ZeroDivisionError": ZeroDivisionError,
              "InjectedFault": InjectedFault, "InjectedBase": InjectedBase, "StopIteration": StopIteration}


# further classes a numeric user function can raise (own family; the rotation over EXCEPTIONS above is left as it was)
EXTRA_EXCEPTIONS = {c.__name__: c for c in (FloatingPointError, OverflowError, ArithmeticError, RuntimeError, TypeError, IndexError,
                                            LookupError, AttributeError, NotImplementedError, AssertionError, MemoryError,
                                            OSError, KeyboardInterrupt, SystemExit, GeneratorExit, Exception, BaseException)}
_ROTATED = list(EXCEPTIONS)
EXCEPTIONS.update(EXTRA_EXCEPTIONS)


class Ctl:
    """fault plan state shared by the wrapped user functions"""

    def __init__(self, fault):
        self.fault = fault
        self.step = 0
        self.armed = True
        self.fired = False
        self.n = 0              # calls of fault["func"] in the current step
        self.log = []           # (func, tag) of every call in the current step
        self.steps_log = []     # per finished step: list of (func, tag)
        self.exc = None
        self.site = None

    def new_step(self):
        self.steps_log.append(self.log)
        self.step += 1
        self.n = 0
        self.log = []

    def wrap(self, name, f):
        def g(*a, **k):
            tag = k.get("tag")
            occ = sum(1 for x in self.log if x == (name, tag))
            self.log.append((name, tag))
            fl = self.fault
            if fl and self.armed and not self.fired and name == fl["func"] and self.step == fl["step"]:
                self.n += 1
                if self.n == fl["k"]:
                    self.fired = True
                    self.site = (name, tag, occ)
                    self.exc = EXCEPTIONS[fl["exc"]]("injected")
                    raise self.exc
            return f(*a, **k)
        return g


def persistent_raw(st):
    return copy.deepcopy({k: v for k, v in st.raw_state().items() if B.is_persistent(k)})


def control_exceptions(st):
    if st.kind == "interp":
        return FailStepException, TransitionEvent
    return st.cls.FailStepException, st.cls.TransitionEvent


def drive(st, mode, nsteps, cap, ctl=None):
    """runs up to `nsteps` steps; returns (trace, caught exception or None, pre-state of the step in
    which the exception was raised)"""
    trace = []
    caught = None
    pre = st.snapshot()
    n_evt = 0

    def boundary():
        nonlocal pre
        if ctl:
            ctl.new_step()
        pre = st.snapshot()
        trace.append(["state", pre, st.next_phase])

    with np.errstate(all="ignore"):
        if mode == "run":
            g = st.obj.run(max_steps=nsteps)
            try:
                for evt in g:
                    ce = B.canon_event(evt)
                    trace.append(ce)
                    n_evt += 1
                    if ce[0] in ("StepCompleted", "StepFailed"):
                        boundary()
                    if n_evt >= cap:
                        break
            except BaseException as ex:      # noqa: BLE001 - whatever leaves run() is the observation
                caught = ex
            finally:
                g.close()
        else:
            fail_exc, trans_exc = control_exceptions(st)
            done = 0
            while done < nsteps and n_evt < cap:
                cur = st.next_phase
                try:
                    for evt in st.obj.run_single_step():
                        trace.append(B.canon_event(evt))
                        n_evt += 1
                    trace.append(["completed", cur, st.next_phase])
                    done += 1
                except fail_exc:
                    trace.append(["failed", cur])
                except trans_exc as ev:
                    st.next_phase = ev.next_phase
                    trace.append(["completed", cur, st.next_phase])
                    done += 1
                except BaseException as ex:  # noqa: BLE001
                    caught = ex
                    break
                n_evt += 1
                boundary()
    return trace, caught, pre


def make_stepper(kind, prog, fmap, interp_class=None):
    code = B.build_code(prog)
    return B.Stepper(kind, code, fmap, interp_class=interp_class, ignore=B.unmentioned_state(prog))


# ---- value clauses -------------------------------------------------------------------------------------

def is_arr(c):
    return isinstance(c, list) and c[:1] == ["arr"]


def check_values(pre, post, writes):
    """-> list of (clause, message)"""
    out = []
    for name in sorted(set(pre) | set(post)):
        pv, qv = pre.get(name), post.get(name)
        if pv == qv:
            continue
        w = [x for x in writes if x[0] == name]
        clean = [x for x in w if not x[3]]
        if not clean:
            out.append(("dependent-unchanged",
                        "%s changed from %s to %s although %s" % (
                            name, B._short(pv), B._short(qv),
                            "every write to it in this step depends on the failed call" if w
                            else "the program does not write it in this step")))
            continue
        if is_arr(qv):
            for i, e in enumerate(qv[1:]):
                if is_arr(pv) and len(pv) == len(qv) and pv[1 + i] == e:
                    continue
                ok = False
                for (_, idx, val, _t) in clean:
                    if idx is None:
                        if is_arr(val) and len(val) == len(qv) and (val[1 + i] == e or val[1 + i] == "nan"):
                            ok = True
                    elif idx == i and val == e:
                        ok = True
                if not ok:
                    out.append(("old-or-assigned", "%s[%d] = %s is neither the old value %s nor a value "
                                "assigned independently of the failed call (writes: %s)"
                                % (name, i, B._short(e), B._short(pv), B._short([x[1:] for x in w]))))
                    break
        else:
            if not any(idx is None and val == qv for (_, idx, val, _t) in clean):
                out.append(("old-or-assigned", "%s = %s is neither the old value %s nor a value assigned "
                            "independently of the failed call (writes: %s)"
                            % (name, B._short(qv), B._short(pv), B._short([x[1:] for x in w]))))
    return out


def reference_writes(prog, step, site, pre):
    """program-order execution of step `step` with the call instance `site` as taint source.
    -> (writes, None) or (None, reason why the value clauses cannot be evaluated)"""
    try:
        ref = B.Ref(prog)
        ref.ignore = B.unmentioned_state(prog)
        for _ in range(step):
            o = ref.step([])
            if o not in ("completed", "failed"):
                return None, "program raises before the step"
        if ref.snapshot() != pre:
            return None, "state before the step differs from program order (a C01 matter)"
        ref.taint_site = site
        ref.step([])
        if site not in ref.call_log:
            return None, "program order does not reach the failed call instance"
        return ref.writes, None
    except B.DomainError as ex:
        return None, "outside the domain: %s" % ex


def continuation_in_domain(prog, raw, phase, more):
    """does the program, carried out in program order from the state after the failure, stay inside
    the domain (every variable assigned before it is read, ...) for the steps that are compared?"""
    ref = B.Ref(prog)
    ref.store = copy.deepcopy(raw)
    ref.next_phase = phase
    try:
        tr = ref.run({"max_steps": more, "t_end": None}, 40)
    except B.DomainError:
        return False
    return not B.has_nan(tr)


# ---- evaluation ------------------------------------------------------------------------------------------

def evaluate_backend(kind, inp, interp_class=None):
    """-> {"fired": bool, "problems": [(clause, message)], "notes": [...]}"""
    prog = inp["program"]
    fault = inp["fault"]
    mode = inp.get("mode", "run")
    more = inp.get("more", 2)
    ctl = Ctl(fault)
    st = make_stepper(kind, prog, B.function_map(prog, wrap=ctl.wrap), interp_class)
    st.set_up(prog["t0"], prog["dt"], prog["state"])
    trace, caught, pre = drive(st, mode, fault["step"] + 1, 60, ctl)
    res = {"fired": ctl.fired, "problems": [], "notes": []}
    if not ctl.fired:
        return res
    problems = res["problems"]
    # 1. same exception
    if caught is not ctl.exc:
        cause = getattr(caught, "__cause__", None)
        problems.append(("same-exception", "the function raised %r but %s left the stepper%s"
                         % (ctl.exc, repr(caught) if caught is not None else "nothing",
                            " (with the original as __cause__)" if cause is ctl.exc else "")))
        res["pep479"] = bool(isinstance(ctl.exc, StopIteration) and isinstance(caught, RuntimeError)
                             and cause is ctl.exc)
        if caught is None:
            return res
    # 2. no temporaries
    stray = st.stray_attributes()
    if stray:
        problems.append(("no-temporaries", "visible after the exception: %s" % stray))
    # 3./4. values
    post = st.snapshot()
    writes, why = reference_writes(prog, fault["step"], ctl.site, pre)
    if writes is None:
        res["notes"].append(why)
    else:
        problems.extend(check_values(pre, post, writes))
    # 5. resumable
    ctl.armed = False
    raw = persistent_raw(st)
    phase = st.next_phase
    if not continuation_in_domain(prog, raw, phase, more):
        # e.g. the failure happened before the initial phase assigned a <p> variable that the next
        # phase reads: what the steppers do with an unassigned variable is outside the domain
        res["notes"].append("continuation reads an unassigned variable: 'resumable' not evaluated")
        return res
    ta, ca, _ = drive(st, mode, more, 40)
    fresh = make_stepper(kind, prog, B.function_map(prog), interp_class)
    # `raw` is ONE deep copy of the failed stepper's persistent variables (aliasing between them kept)
    fresh.obj.set_up(t_start=raw.get("<t>"), dt_start=raw.get("<dt>"),
                     context={k[len("<state>"):]: v for k, v in raw.items() if k.startswith("<state>")})
    for k, v in raw.items():
        if k.startswith("<p>"):
            fresh.set_var(k, v)
    fresh.next_phase = phase
    tb, cb, _ = drive(fresh, mode, more, 40)
    ka = B.error_kind(ca)[:2] if ca is not None else None
    kb = B.error_kind(cb)[:2] if cb is not None else None
    if ta != tb or ka != kb:
        d = B.first_diff(ta, tb)
        problems.append(("resumable", "continuing the failed stepper differs from a fresh stepper started in "
                         "state %s, phase %r: %s" % (B._short(post), phase,
                                                     "entry %d: continued %s, fresh %s"
                                                     % (d[0], B._short(d[1]), B._short(d[2])) if d
                                                     else "errors %s vs %s" % (ka, kb))))
    return res


def evaluate(inp, interp_class=None):
    out = {"status": "ok", "fired": {}, "problems": [], "notes": [], "pep479": False}
    try:
        B.build_code(inp["program"])
    except (ValueError, TypeError) as ex:
        return {"status": "skip", "detail": "the builder rejects the program: %r" % (ex,)}
    for kind in ("interp", "gen"):
        r = evaluate_backend(kind, inp, interp_class if kind == "interp" else None)
        out["fired"][kind] = r["fired"]
        out["notes"] += ["%s: %s" % (kind, n) for n in r["notes"]]
        out["problems"] += [(c, "%s: %s" % ("interpreter" if kind == "interp" else "generated class", m))
                            for c, m in r["problems"]]
        out["pep479"] = out["pep479"] or r.get("pep479", False)
    if out["problems"]:
        out["status"] = "fail"
    return out


def fp_pep479(inp):
    """a user function that raises StopIteration: both steppers are generators, so Python (PEP 479)
    replaces it by RuntimeError('generator raised StopIteration') with the original as __cause__"""
    if inp.get("fault", {}).get("exc") != "StopIteration":
        return False
    v = evaluate(inp)
    return v["status"] == "fail" and v["pep479"] and all(c == "same-exception" for c, _ in v["problems"])


FINGERPRINTS = {"pep479_stopiteration": fp_pep479}


def _replay(inp):
    try:
        v = evaluate(inp)
    except B.DomainError as ex:
        return {"fails": False, "detail": "outside the domain: %s" % ex}
    except Exception as ex:     # noqa: BLE001
        return {"error": "%s: %s" % (type(ex).__name__, ex)}
    if v["status"] == "skip":
        return {"fails": False, "detail": v["detail"]}
    if v["status"] == "ok":
        return {"fails": False, "detail": None if any(v["fired"].values()) else "the fault never fires"}
    out = {"fails": True, "detail": "; ".join("[%s] %s" % p for p in v["problems"])}
    for n, f in FINGERPRINTS.items():
        if f(inp):
            out["matches_fingerprint"] = n
    return out


# ---- input generation -------------------------------------------------------------------------------------

def base_program(rng):
    """a c01 random program without the triggers of known C01 findings, with user functions"""
    g = B.Gen(rng, zero_trip=False, ret_names=False, guarded_bounds=False, printer_stress=False,
              builtin_kwargs=False, funcs=True, call_boost=True)
    for _ in range(20):
        p = g.program()
        if len(p["funcs"]) >= 2 and not B.has_guarded_loop_bound(p) and not any(s[0] == "assign_sub" and not B.stmt_loops(s)
                                            and isinstance(s[3], list) and s[3][0] == "call"
                                            for s, _ in B.all_stmts(p)):
            break
    p["run"] = {"max_steps": 3, "t_end": None}
    return p


def crash_points(prog, steps):
    """every (step, func, k) at which a user function is called by the real interpreter in a
    fault-free run of `steps` steps"""
    ctl = Ctl(None)
    try:
        st = make_stepper("interp", prog, B.function_map(prog, wrap=ctl.wrap))
        st.set_up(prog["t0"], prog["dt"], prog["state"])
        drive(st, "run", steps, 40, ctl)
    except Exception:       # noqa: BLE001
        return []
    ctl.steps_log.append(ctl.log)
    out = []
    for s, log in enumerate(ctl.steps_log[:steps]):
        counts = {}
        for name, _tag in log:
            counts[name] = counts.get(name, 0) + 1
            out.append((s, name, counts[name]))
    return out


def _bounded(payload):
    t0 = time.time()
    budget = payload.get("budget", {}) or {}
    tier = payload.get("tier", "quick")
    seed = payload.get("seed", 0)
    rng = random.Random(seed)
    n_prog = budget.get("programs", 55 if tier == "quick" else 1400)
    wall = budget.get("wall_s", 22 if tier == "quick" else 280)       # safety net only (keeps runs deterministic)
    steps = budget.get("steps", 3)
    active = {e.get("fingerprint") for e in payload.get("known", []) if e.get("fingerprint") in FINGERPRINTS}
    exc_names = ["ValueError", "InjectedFault", "KeyError", "InjectedBase", "ZeroDivisionError"]

    failures, samples, known_hits = [], [], []
    per_clause = {}
    parts = {"programs": 0, "crash_points": 0, "fault_fired_both": 0, "fault_fired_one": 0,
             "fault_never_fired": 0, "some_clause_not_evaluable": 0, "skipped": 0,
             "fingerprint_hits": {}, "suppressed_by_active_fingerprint": 0, "stopiteration_probes": 0}
    distinct = set()
    evals = 0
    complete = True

    def consider(inp):
        nonlocal evals
        try:
            v = evaluate(inp)
        except B.DomainError:
            parts["skipped"] += 1
            return
        if v["status"] == "skip":
            parts["skipped"] += 1
            return
        evals += 1
        fired = sum(1 for x in v["fired"].values() if x)
        parts["fault_fired_both" if fired == 2 else "fault_fired_one" if fired == 1 else "fault_never_fired"] += 1
        if fired:
            distinct.add(B.key_of(inp))
        if v["notes"]:
            parts["some_clause_not_evaluable"] += 1
        if v["status"] != "fail":
            return
        fp = None
        for n, f in FINGERPRINTS.items():
            if f(inp):
                fp = n
        if fp:
            parts["fingerprint_hits"][fp] = parts["fingerprint_hits"].get(fp, 0) + 1
            if fp in active:
                parts["suppressed_by_active_fingerprint"] += 1
                return
        clause = v["problems"][0][0]
        per_clause[(fp, clause)] = per_clause.get((fp, clause), 0) + 1
        if per_clause[(fp, clause)] <= 3:
            f = {"oracle": clause, "input": inp, "detail": "; ".join("[%s] %s" % p for p in v["problems"])}
            if fp:
                f["matches_fingerprint"] = fp
            failures.append(f)

    i_exc = 0
    for pi in range(n_prog):
        if time.time() - t0 > wall:
            complete = False
            break
        prog = base_program(rng)
        pts = crash_points(prog, steps)
        parts["programs"] += 1
        # every crash point of the program (exhaustive per program), alternating the driving mode
        for (s, name, k) in pts:
            if time.time() - t0 > wall:
                complete = False
                break
            inp = {"program": prog, "fault": {"func": name, "k": k, "step": s,
                                              "exc": exc_names[i_exc % len(exc_names)]},
                   "mode": "run" if i_exc % 2 == 0 else "single", "more": 2}
            i_exc += 1
            parts["crash_points"] += 1
            consider(inp)
            if len(samples) < 2 and s > 0:
                samples.append(inp)
        if pts and pi % 20 == 0:
            s, name, k = pts[0]
            parts["stopiteration_probes"] += 1
            consider({"program": prog, "fault": {"func": name, "k": k, "step": s, "exc": "StopIteration"},
                      "mode": "run", "more": 1})

    # a user function called inside a looped assignment fails mid-loop; the phase that runs next uses a per-step temporary
    # with the loop counter's name (nothing of the failed loop may be visible to it)
    for counter in ("i", "k"):
        prog = {"phases": [
            {"name": "stage", "next": "update", "body": [
                ["assign", "w", ["call", "<builtin>array", [4], {}]],
                ["assign_sub", "w", counter, ["call", "<func>f", [["+", "<state>y", counter]], {}], [[counter, 0, 4]]],
                ["assign", "<state>y", ["+", ["*", 0.5, "<state>y"], ["[]", "w", 3]]]]},
            {"name": "update", "next": "stage", "body": [
                ["assign", counter, ["+", "<state>n", 1]],
                ["assign", "<state>n", counter],
                ["assign", "<t>", ["+", "<t>", "<dt>"]],
                ["yield", "<state>n", "n", "<t>", "count"]]}],
            "initial": "stage", "funcs": {"<func>f": ["lin", 0.5, 1]}, "state": {"y": 1.0, "n": 0}, "t0": 0, "dt": 0.25,
            "run": {"max_steps": 3, "t_end": None}, "cap": 24}
        for (s, name, k) in crash_points(prog, 5):
            for mode in ("run", "single"):
                parts["failure_inside_a_looped_assignment_probes"] = parts.get("failure_inside_a_looped_assignment_probes", 0) + 1
                consider({"program": prog, "fault": {"func": name, "k": k, "step": s, "exc": "ValueError"}, "mode": mode, "more": 3})

    # a user function called in a loop BOUND fails, possibly before the loop's counter was ever bound (first row of a nest,
    # single loop): the caller still gets the function's own exception and nothing of the loop stays visible
    for loops in ([["i", 0, 3], ["j", 0, ["call", "<func>f", ["<state>n"], {}]]],
                  [["j", 0, ["call", "<func>f", ["<state>n"], {}]]],
                  [["i", 0, ["call", "<func>f", ["<state>n"], {}]], ["j", 0, 2]]):
        body_e = ["+", "<state>y", ["*", "j", 2]] if len(loops) == 1 else ["+", "<state>y", ["*", "i", "j"]]
        prog = {"phases": [
            {"name": "main", "next": "main", "body": [
                ["assign", "<state>y", body_e, loops],
                ["assign", "<state>n", ["+", "<state>n", 1]],
                ["assign", "<t>", ["+", "<t>", "<dt>"]],
                ["yield", "<state>y", "y", "<t>", "acc"]]}],
            "initial": "main", "funcs": {"<func>f": ["lin", 0, 2]}, "state": {"y": 1, "n": 0}, "t0": 0, "dt": 0.25,
            "run": {"max_steps": 3, "t_end": None}, "cap": 24}
        for (s, name, k) in crash_points(prog, 3):
            for mode in ("run", "single"):
                parts["failure_in_a_loop_bound_probes"] = parts.get("failure_in_a_loop_bound_probes", 0) + 1
                consider({"program": prog, "fault": {"func": name, "k": k, "step": s, "exc": "ValueError"}, "mode": mode, "more": 2})

    # every further exception class, at the first and the last crash point of two programs, both driving modes
    rng_x = random.Random("exception-classes/%s" % seed)
    for pi in range(2):
        prog = base_program(rng_x)
        pts = crash_points(prog, steps)
        if not pts:
            continue
        for (s, name, k) in {pts[0], pts[-1]}:
            for exc in sorted(EXTRA_EXCEPTIONS):
                for mode in ("run", "single"):
                    parts["exception_class_probes"] = parts.get("exception_class_probes", 0) + 1
                    consider({"program": prog, "fault": {"func": name, "k": k, "step": s, "exc": exc}, "mode": mode, "more": 1})

    for e in payload.get("known", []):
        try:
            r = _replay(e["native"])
        except Exception:       # noqa: BLE001
            continue
        if r.get("fails"):
            known_hits.append("%s: %s" % (e["id"], e["what"]))
    parts["failure_classes"] = {json.dumps(list(k)): n for k, n in sorted(per_clause.items(), key=str)}
    return {"evaluations": evals, "distinct_nontrivial": len(distinct),
            "rule": "seeded random builder programs (c01 generator without known-defect triggers: 1-3 phases, "
                    "nested if_/else_, array loops, <state>/<p> variables incl. persistent arrays, user "
                    "functions with one or two results and keyword arguments, fail_step/switch_phase/raise_); "
                    "for each program EVERY crash point (step 0..%d x function x call index, taken from a "
                    "fault-free run of the real interpreter) is injected once, exception class and driving "
                    "mode (run / run_single_step) rotating; each evaluation checks interpreter and generated "
                    "class.  Non-trivial = the fault fires in at least one back end; distinct = distinct "
                    "JSON inputs." % (steps - 1),
            "bound": "programs as in C01 (<= 3 phases, <= ~25 builder calls per phase), failure in one of the "
                     "first %d steps, 2 further steps after the failure" % steps,
            "samples": samples[:2], "failures": failures[:20], "known_hits": known_hits,
            "parts": parts, "exhaustive": False}


# ---- pinning the hash seed -------------------------------------------------------------------------------------
# The order in which the real interpreter runs independent statements follows set iteration order, i.e.
# the process's string hash seed.  Which statements have run when the fault fires (and hence some of the
# measured counters) therefore varies with PYTHONHASHSEED; to make results reproducible the work is done
# in a child process with PYTHONHASHSEED=0 unless this process already runs with it.

def _main():
    mode = sys.argv[1]
    real = sys.stdout
    sys.stdout = sys.stderr
    payload = json.loads(sys.stdin.read())
    out = _bounded(payload) if mode == "bounded" else _replay(payload)
    real.write(json.dumps(out, default=str))
    real.flush()


def _pinned(mode, payload):
    if os.environ.get("PYTHONHASHSEED") == "0":
        return None
    try:
        env = dict(os.environ, PYTHONHASHSEED="0", PYTHONPATH=os.pathsep.join(p for p in sys.path if p))
        r = subprocess.run([sys.executable, "-c", "from replay.oracles import c11; c11._main()", mode],
                           input=json.dumps(payload).encode(), stdout=subprocess.PIPE,
                           stderr=subprocess.DEVNULL, env=env, check=True)
        return json.loads(r.stdout.decode())
    except Exception:       # noqa: BLE001 - fall back to this process
        return None


def bounded(payload):
    out = _pinned("bounded", payload)
    return out if out is not None else _bounded(payload)


def replay(inp):
    out = _pinned("replay", inp)
    return out if out is not None else _replay(inp)
