"""Base classes for sidecar contracts and proof units."""
import z3

from .values import *  # noqa
from .engine import Engine, Obligation, St
from . import extract


class FunctionContract:
    """Contract of one real function.  Subclasses set `relpath`, `qualname`
    and override `params`, `requires`, `ensures`, `raises`, `loops`, ..."""
    prop = None
    relpath = None
    qualname = None
    template_marker = None      # set => the function is a string template emitted by `qualname`
    variant_name = ""           # several contracts on one function (e.g. soundness / completeness)
    loops = {}
    calls = {}
    names = {}
    nested = {}
    ghost_updates = {}
    exc_hierarchy = {}
    call_modifies = {}
    axioms = ()
    raises = {}                 # exception class -> lambda st: [(name, goal)]
    any_raise_ok = False
    expected_min_obligations = 1
    strings_symbolic = False
    max_paths = 4000

    def label(self):
        q = self.qualname + (("#" + self.variant_name) if self.variant_name else "")
        return "%s:%s" % (self.relpath, q)

    # -- hooks -----------------------------------------------------------
    def params(self, ctx):
        raise NotImplementedError

    def ghosts(self, ctx):
        pass

    def requires(self, st):
        return []

    def ensures(self, st):
        return []

    def type_of_literal(self, node):
        raise Unsupported("L%s: empty container literal needs `type_of_literal`" % node.lineno)

    def any_exc_matches(self, ctx, exc, clsname):
        raise Unsupported("arbitrary exception matched against %s" % clsname)

    # -- engine interface --------------------------------------------------
    def setup(self, ctx):
        self.params(ctx)
        self.ghosts(ctx)
        st = ctx.snapshot()
        for name, f in self.requires(st):
            ctx.assume(f)

    def exit_obligations(self, ctx, st, kind, value):
        if kind == "return":
            return list(self.ensures(st))
        cls = value.cls
        if cls in self.raises:
            return list(self.raises[cls](st))
        if self.any_raise_ok:
            return []
        return [("no-exception(%s)" % cls, z3.BoolVal(False))]

    # -- loading -----------------------------------------------------------
    def load(self):
        if self.template_marker:
            return extract.load_template_function(self.relpath, self.qualname, self.template_marker)
        return extract.load_function(self.relpath, self.qualname)


class Unit:
    """Something that produces named obligations."""
    label = ""

    def generate(self):
        """-> (axioms, [Obligation], info dict)"""
        raise NotImplementedError


class FunctionUnit(Unit):
    def __init__(self, contract):
        self.contract = contract
        self.label = contract.label()
        self.engine = None
        self.extracted = None

    def generate(self):
        c = self.contract
        ex = c.load()
        self.extracted = ex
        # a decorator replaces the function by whatever it returns (a memo table, a wrapper, a registration): the body alone
        # is then not what a caller runs.  Only decorators that leave the body's meaning alone pass, plus those a contract
        # names because its clauses account for them (`accepted_decorators`)
        import ast
        ok = {"property", "staticmethod", "classmethod", "abstractmethod"} | set(getattr(c, "accepted_decorators", ()))
        for d in getattr(ex.node, "decorator_list", []):
            txt = ast.unparse(d)
            if txt not in ok and not txt.endswith(".setter"):
                raise Unsupported("%s is decorated with @%s: the contract is stated for the undecorated body"
                                  % (ex.qualname if hasattr(ex, "qualname") else self.label, txt))
        eng = Engine(ex.node, c)
        self.engine = eng
        obs = eng.run()
        # stable, unique names: <label>/<name>#<k>
        seen = {}
        uniq = []
        dedupe = set()
        for ob in obs:
            sig = (ob.name, ob.goal.sexpr() if z3.is_expr(ob.goal) else str(ob.goal),
                   tuple(h.sexpr() for h in ob.hyps))
            if sig in dedupe:
                continue
            dedupe.add(sig)
            k = seen.get(ob.name, 0)
            seen[ob.name] = k + 1
            ob.name = "%s/%s#%d" % (self.label, ob.name, k)
            uniq.append(ob)
        info = {"function": ex.describe(), "paths": eng.npaths, "exits": len(eng.exits)}
        if hasattr(c, "after_run"):
            extra = c.after_run(eng)
            for ob in extra or []:
                ob.name = "%s/%s" % (self.label, ob.name)
                uniq.append(ob)
        return list(eng.axioms), uniq, info


class FilteredUnit(Unit):
    """another property's unit with only the obligations that matter here (a check must not report a violation of ITS
    property for a change that only breaks the other one)"""

    def __init__(self, unit, keep):
        self.unit = unit
        self.keep = keep
        self.label = unit.label

    @property
    def engine(self):
        return getattr(self.unit, "engine", None)

    @property
    def extracted(self):
        return getattr(self.unit, "extracted", None)

    @property
    def contract(self):
        return getattr(self.unit, "contract", None)

    def generate(self):
        ax, obs, info = self.unit.generate()
        kept = [o for o in obs if self.keep(o.name)]
        info = dict(info)
        info["obligations_not_relevant_to_this_property"] = len(obs) - len(kept)
        return ax, kept, info


class ClassShapeUnit(Unit):
    """An assumption about a library base class is stated for a subclass of the repository that overrides only the methods
    under contract.  A further method or class attribute, or another base, is outside the assumption: undecided."""

    def __init__(self, relpath, cls, known, bases, why):
        self.relpath, self.cls, self.known, self.bases, self.why = relpath, cls, set(known), list(bases), why
        self.label = "class-shape:%s:%s" % (relpath, cls)

    def generate(self):
        import ast
        tree, _ = extract.parse_module(self.relpath)
        cls = [n for n in tree.body if isinstance(n, ast.ClassDef) and n.name == self.cls]
        if not cls:
            raise Unsupported("class %s not found" % self.cls)
        names = set()
        for n in cls[-1].body:
            if isinstance(n, (ast.FunctionDef, ast.AsyncFunctionDef, ast.ClassDef)):
                names.add(n.name)
            elif isinstance(n, (ast.Assign, ast.AnnAssign, ast.AugAssign)):
                for t in (n.targets if isinstance(n, ast.Assign) else [n.target]):
                    names.update(x.id for x in ast.walk(t) if isinstance(x, ast.Name))
            elif isinstance(n, ast.Expr) and isinstance(n.value, ast.Constant):
                continue        # docstring
            elif isinstance(n, ast.Pass):
                continue
            else:
                raise Unsupported("%s: class body statement %s" % (self.cls, type(n).__name__))
        extra = sorted(names - self.known)
        if extra:
            raise Unsupported("%s defines %s, which %s does not cover" % (self.cls, ", ".join(extra), self.why))
        bases = [ast.unparse(b) for b in cls[-1].bases]
        if bases != self.bases or cls[-1].keywords or cls[-1].decorator_list:
            raise Unsupported("%s has bases %s / decorators, %s is stated for %s" % (self.cls, bases, self.why, self.bases))
        ob = Obligation("%s/overrides-only-methods-under-contract" % self.label, [], z3.BoolVal(True))
        ob.external = {"ok": True, "seconds": 0.0, "backend": "ast", "output": "bases=%s members=%s" % (bases, sorted(names))}
        return [], [ob], {"class": self.cls, "members": sorted(names)}


class LemmaUnit(Unit):
    """Spec-level lemmas: named closed formulas to be proved valid."""

    def __init__(self, label, make):
        self.label = label
        self.make = make     # () -> (axioms, [(name, hyps, goal)])

    def generate(self):
        axioms, items = self.make()
        obs = [Obligation("%s/%s" % (self.label, n), hyps, goal) for n, hyps, goal in items]
        return list(axioms), obs, {"lemma": self.label}


def summary_function(engine, out_sort, encode_exit):
    """Fold the exits of a loop-free, call-free function into one term:
    If(pc1, out1, If(pc2, out2, ...)).  `encode_exit(kind, value) -> term of
    out_sort`.  Soundness of the fold needs the path conditions to be mutually
    exclusive and exhaustive: returned as obligations."""
    exits = engine.exits
    if not exits:
        raise Unsupported("no exits")
    terms = []
    for kind, value, line, pc in exits:
        terms.append((z3.And(*pc) if pc else z3.BoolVal(True), encode_exit(kind, value), line))
    out = terms[-1][1]
    for cond, t, _ in reversed(terms[:-1]):
        out = z3.If(cond, t, out)
    obs = []
    obs.append(Obligation("summary/exhaustive", [], z3.Or(*[c for c, _, _ in terms])))
    for i in range(len(terms)):
        for j in range(i + 1, len(terms)):
            obs.append(Obligation("summary/exclusive[%d,%d]" % (terms[i][2], terms[j][2]), [],
                                  z3.Not(z3.And(terms[i][0], terms[j][0]))))
    return out, obs


def call_by_contract(ctx, it, name, pre, havoc, post, result=None):
    """modular call: prove `pre` (list of (name, formula)), havoc the cells in `havoc`
    (list of VRef), assume `post()` (evaluated after the havoc), return `result()`"""
    for n, f in pre:
        ctx.oblige("call[%s]/pre[%s]@L%s" % (name, n, ctx.cur_line), f)
    for ref in havoc:
        ctx.check_write(ref.loc)
        ctx.heap[ref.loc] = it.fresh_like(ctx.heap[ref.loc], "call_%s" % name)
    for f in post():
        ctx.assume(f)
    return result() if result is not None else NONE


class LeanUnit(Unit):
    """A meta-lemma checked by Lean 4 (+ Mathlib): one obligation per file, discharged iff `lean`
    accepts the file and the source contains no sorry / admit / extra axiom."""

    def __init__(self, label, path, theorems):
        self.label = label
        self.path = path
        self.theorems = theorems

    def generate(self):
        import os, re, subprocess, time
        here = os.path.dirname(os.path.dirname(os.path.abspath(__file__)))
        full = os.path.join(here, self.path)
        src = open(full).read()
        t0 = time.time()
        bad = re.findall(r"\b(sorry|admit|axiom|unsafe|implemented_by)\b", src)
        try:
            p = subprocess.run(["lean", full], capture_output=True, text=True, timeout=900,
                               cwd=os.path.dirname(full))
            ok = p.returncode == 0 and not bad and "warning" not in p.stdout.lower()
            out = (p.stdout + p.stderr)[-1500:]
        except Exception as ex:   # lean missing / timeout: undecided, never a violation
            ok, out = None, str(ex)
        ob = Obligation("%s/lean-accepts[%s]" % (self.label, ",".join(self.theorems)), [], z3.BoolVal(True))
        ob.external = {"ok": ok, "seconds": time.time() - t0, "backend": "lean 4 + Mathlib", "output": out,
                       "forbidden_tokens": bad}
        return [], [ob], {"lemma": self.label, "file": self.path, "theorems": self.theorems}


class FrameUnit(Unit):
    """frame condition of one real function, decided by pyvc.frame (a conservative effect analysis of its AST)"""

    def __init__(self, relpath, qualname, roots, why, attr_roots=(), own_methods=(), summaries=None, module_roots=(),
                 only_if_mentioned=False, interior_methods=(), pure_constructors=(), field_roots=()):
        self.interior_methods, self.pure_constructors = set(interior_methods), set(pure_constructors)
        self.field_roots = set(field_roots)
        self.relpath, self.qualname, self.roots, self.why = relpath, qualname, set(roots), why
        self.attr_roots, self.own_methods = set(attr_roots), set(own_methods)
        self.summaries, self.module_roots = dict(summaries or {}), set(module_roots)
        self.only_if_mentioned = only_if_mentioned
        self.label = "frame:%s:%s" % (relpath, qualname)
        self.extracted = None

    def analyse(self):
        from .frame import FrameAnalysis, mutable_default_params
        ex = extract.load_function(self.relpath, self.qualname)
        self.extracted = ex
        roots = set(self.roots) | set(mutable_default_params(ex.node))
        import ast
        for d in ex.node.decorator_list:
            if not (isinstance(d, ast.Name) and d.id in ("property", "staticmethod", "classmethod", "abstractmethod")):
                raise Unsupported("decorator @%s may keep state between calls" % ast.unparse(d))
        fa = FrameAnalysis(ex.node, roots, self.attr_roots, self.own_methods, self.summaries, self.module_roots,
                           self.interior_methods, self.pure_constructors, self.field_roots).run()
        return ex, fa

    def generate(self):
        ex, fa = self.analyse()
        if fa.unsupported and not fa.violations:
            raise Unsupported("; ".join(str(f) for f in fa.unsupported[:3]))
        ok = not fa.violations
        name = "%s/modifies-nothing-reachable-from-%s" % (self.label, self.why)
        ob = Obligation(name, [], z3.BoolVal(ok), line=(fa.violations[0].line if fa.violations else ex.lines[0]))
        ob.external = {"ok": ok, "seconds": 0.0, "backend": "frame-analysis",
                       "output": "; ".join(str(f) for f in fa.violations) or "no store, deletion or mutating call reaches a protected object"}
        return [], [ob], {"function": ex.describe(), "mentions_of_protected_roots": fa.mentions}
