"""Native oracle for C18 (runs the real dagrt.expression.collapse_constants).

Real signature: collapse_constants(expression, free_variables, assign_func, new_var_func) -> expression
  free_variables: collection of pymbolic Variables (the test suite passes [var("y")]);
  assign_func(variable, expr) is called for every hoisted subexpression;
  new_var_func() returns a new variable (precondition: distinct names not used in the expression).

Input (JSON): {"expr": tree, "free": [names], "clause": optional}
tree ::= ["var", name] | ["int", n] | ["float", "repr"] | ["sum", t...] | ["prod", t...] | ["quot", t, t]
       | ["pow", t, t] | ["call", t, [t...], {kw: t}] | ["sub", t, [t...]]
       | ["cmp", op, t, t] | ["if", t, t, t] | ["and", t...] | ["or", t...] | ["not", t]

Clauses:
  exception     collapse_constants raises (expression from the property's stated class: sums, products,
                quotients, powers, calls, subscripts;  "exception-extended" for comparisons / logic / If)
  value         result with the hoisted assignments substituted back differs in value from the original
                at a random rational point under hash-table function symbols
  hoisted-free  a hoisted subexpression mentions a free variable
  assigned-once a new variable is assigned not exactly once, or the result uses one never assigned
  result-shape  (information only, not a failure)
"""
import itertools
import json
import random
from fractions import Fraction

import pymbolic.primitives as p

from dagrt.expression import collapse_constants

CMP_OPS = ["<", "<=", ">", ">=", "==", "!="]
CORE = ("var", "int", "float", "sum", "prod", "quot", "pow", "call", "sub")


# {{{ JSON <-> pymbolic

def build(t):
    k = t[0]
    if k == "var":
        return p.Variable(t[1])
    if k == "int":
        return int(t[1])
    if k == "float":
        return float(t[1])
    if k == "sum":
        return p.Sum(tuple(build(c) for c in t[1:]))
    if k == "prod":
        return p.Product(tuple(build(c) for c in t[1:]))
    if k == "quot":
        return p.Quotient(build(t[1]), build(t[2]))
    if k == "pow":
        return p.Power(build(t[1]), build(t[2]))
    if k == "cmp":
        return p.Comparison(build(t[2]), t[1], build(t[3]))
    if k == "and":
        return p.LogicalAnd(tuple(build(c) for c in t[1:]))
    if k == "or":
        return p.LogicalOr(tuple(build(c) for c in t[1:]))
    if k == "not":
        return p.LogicalNot(build(t[1]))
    if k == "if":
        return p.If(build(t[1]), build(t[2]), build(t[3]))
    if k == "call":
        f = build(t[1])
        args = tuple(build(c) for c in t[2])
        kw = t[3] if len(t) > 3 else {}
        if kw:
            from constantdict import constantdict
            return p.CallWithKwargs(f, args, constantdict({n: build(v) for n, v in kw.items()}))
        return p.Call(f, args)
    if k == "sub":
        return p.Subscript(build(t[1]), tuple(build(c) for c in t[2]))
    raise ValueError("unknown node %r" % (k,))


def kids(t):
    k = t[0]
    if k in ("var", "int", "float"):
        return []
    if k == "cmp":
        return [t[2], t[3]]
    if k == "call":
        return [t[1]] + list(t[2]) + list((t[3] if len(t) > 3 else {}).values())
    if k == "sub":
        return [t[1]] + list(t[2])
    return list(t[1:])


def names_in(t):
    if t[0] == "var":
        return {t[1]}
    out = set()
    for c in kids(t):
        out |= names_in(c)
    return out


def kinds_in(t):
    out = {t[0]}
    for c in kids(t):
        out |= kinds_in(c)
    return out


def size(t):
    return 1 + sum(size(c) for c in kids(t))

# }}}


# {{{ own variable collector and evaluator over pymbolic objects

def variables_of(e):
    """names of all Variable nodes (function and aggregate position included)"""
    if isinstance(e, p.Variable):
        return {e.name}
    out = set()
    if isinstance(e, (p.Sum, p.Product, p.LogicalAnd, p.LogicalOr)):
        cs = e.children
    elif isinstance(e, p.Quotient):
        cs = (e.numerator, e.denominator)
    elif isinstance(e, p.Power):
        cs = (e.base, e.exponent)
    elif isinstance(e, p.CallWithKwargs):
        cs = (e.function,) + tuple(e.parameters) + tuple(e.kw_parameters.values())
    elif isinstance(e, p.Call):
        cs = (e.function,) + tuple(e.parameters)
    elif isinstance(e, p.Subscript):
        cs = (e.aggregate,) + (e.index if isinstance(e.index, tuple) else (e.index,))
    elif isinstance(e, p.Comparison):
        cs = (e.left, e.right)
    elif isinstance(e, p.LogicalNot):
        cs = (e.child,)
    elif isinstance(e, p.If):
        cs = (e.condition, e.then, e.else_)
    elif isinstance(e, tuple):
        cs = e
    else:
        cs = ()
    for c in cs:
        out |= variables_of(c)
    return out


class Skip(Exception):
    pass


class Unsupported(Exception):
    pass


def _h(*key):
    import hashlib
    d = hashlib.sha256(repr(key).encode()).digest()
    return Fraction(int.from_bytes(d[:2], "big") % 11 - 5, int.from_bytes(d[2:4], "big") % 3 + 1)


def _key(v):
    if isinstance(v, bool):
        return ("b", v)
    if isinstance(v, tuple):
        raise Unsupported("tuple used as a scalar")
    v = Fraction(v)
    return (v.numerator, v.denominator)


def ev(e, env, subst=None, depth=0):
    """value of e; names in subst (new variable -> hoisted expression) are replaced, recursively"""
    if depth > 50:
        raise Unsupported("cyclic assignments")
    seed, vals = env
    if isinstance(e, bool):
        return e
    if isinstance(e, (int, Fraction)):
        return Fraction(e)
    if isinstance(e, float):
        return Fraction(e)
    if isinstance(e, tuple):
        # an index tuple; collapse_constants hoists a constant multi-index as one unit
        return tuple(ev(c, env, subst, depth) for c in e)
    if isinstance(e, p.Variable):
        if subst is not None and e.name in subst:
            return ev(subst[e.name], env, subst, depth + 1)
        if e.name in vals:
            return vals[e.name]
        return _h(seed, "var", e.name)
    if isinstance(e, p.Sum):
        r = Fraction(0)
        for c in e.children:
            r += ev(c, env, subst, depth)
        return r
    if isinstance(e, p.Product):
        r = Fraction(1)
        for c in e.children:
            r *= ev(c, env, subst, depth)
        return r
    if isinstance(e, p.Quotient):
        a, b = ev(e.numerator, env, subst, depth), ev(e.denominator, env, subst, depth)
        if b == 0:
            raise Skip
        return a / b
    if isinstance(e, p.Power):
        a, b = ev(e.base, env, subst, depth), ev(e.exponent, env, subst, depth)
        a, b = Fraction(a), Fraction(b)
        if b.denominator != 1 or abs(b) > 6:
            raise Skip
        if a == 0 and b < 0:
            raise Skip
        r = a ** int(b)
        if r.numerator.bit_length() > 2000 or r.denominator.bit_length() > 2000:
            raise Skip
        return r
    if isinstance(e, p.Comparison):
        import operator
        a, b = ev(e.left, env, subst, depth), ev(e.right, env, subst, depth)
        return {"<": operator.lt, "<=": operator.le, ">": operator.gt, ">=": operator.ge,
                "==": operator.eq, "!=": operator.ne}[e.operator](a, b)
    if isinstance(e, p.LogicalAnd):
        return all([bool(ev(c, env, subst, depth)) for c in e.children])
    if isinstance(e, p.LogicalOr):
        return any([bool(ev(c, env, subst, depth)) for c in e.children])
    if isinstance(e, p.LogicalNot):
        return not bool(ev(e.child, env, subst, depth))
    if isinstance(e, p.If):
        c = ev(e.condition, env, subst, depth)
        t, f = ev(e.then, env, subst, depth), ev(e.else_, env, subst, depth)
        return t if c else f
    if isinstance(e, (p.Call, p.CallWithKwargs, p.Subscript)):
        if isinstance(e, p.Subscript):
            head = e.aggregate
            iv = ev(e.index, env, subst, depth)
            if not isinstance(iv, tuple):
                iv = (iv,)
            if any(isinstance(x, tuple) for x in iv):
                raise Unsupported("nested index tuple")
            args = tuple(_key(x) for x in iv)
            kw = ()
            tag = "sub"
        else:
            head = e.function
            args = tuple(_key(ev(a, env, subst, depth)) for a in e.parameters)
            kw = ()
            if isinstance(e, p.CallWithKwargs):
                kw = tuple(sorted((n, _key(ev(v, env, subst, depth))) for n, v in e.kw_parameters.items()))
            tag = "call"
        n = 0
        while isinstance(head, p.Variable) and subst is not None and head.name in subst and n < 50:
            head = subst[head.name]
            n += 1
        if isinstance(head, p.Variable):
            hkey = ("name", head.name)
        else:
            hkey = ("value", _key(ev(head, env, subst, depth + 1)))
        return _h(seed, tag, hkey, args, kw)
    raise Unsupported(type(e).__name__)


def points(names, n=4):
    names = sorted(names)
    out = []
    for s in range(n):
        rng = random.Random("c18-%d" % s)
        out.append((s, {nm: Fraction(rng.randint(-4, 4), rng.randint(1, 3)) for nm in names}))
    return out

# }}}


def _viol(clause, detail):
    return {"clause": clause, "detail": detail}


def check(inp):
    t = inp["expr"]
    free_names = list(inp["free"])
    e = build(t)
    free = [p.Variable(n) for n in free_names]
    made = []
    assigned = []

    def new_var_func():
        v = p.Variable("cst_%d" % len(made))
        made.append(v)
        return v

    def assign_func(variable, expr):
        assigned.append((variable, expr))

    if any(n.startswith("cst_") for n in names_in(t)):
        return None            # precondition of new_var_func: fresh names
    try:
        result = collapse_constants(e, free, assign_func, new_var_func)
    except RecursionError:
        return None
    except Exception as ex:
        core = kinds_in(t) <= set(CORE)
        return {"hoisted": 0, "viols": [_viol("exception" if core else "exception-extended",
                                               "collapse_constants(%s, free=%s) raised %s: %s"
                                               % (e, free_names, type(ex).__name__, ex))]}
    viols = []
    made_names = [v.name for v in made]
    # assigned exactly once
    counts = {}
    for v, x in assigned:
        nm = v.name if isinstance(v, p.Variable) else repr(v)
        counts[nm] = counts.get(nm, 0) + 1
    for nm in made_names:
        if counts.get(nm, 0) != 1:
            viols.append(_viol("assigned-once", "new variable %s was assigned %d times (collapse_constants(%s, free=%s) = %s)"
                               % (nm, counts.get(nm, 0), e, free_names, result)))
    for nm in counts:
        if nm not in made_names:
            viols.append(_viol("assigned-once", "assignment to %s, which new_var_func never returned" % nm))
    used_new = sorted(n for n in variables_of(result) if n.startswith("cst_"))
    for nm in used_new:
        if counts.get(nm, 0) == 0:
            viols.append(_viol("assigned-once", "result %s uses %s, which is never assigned" % (result, nm)))
    # hoisted expressions mention no free variable
    for v, x in assigned:
        bad = sorted(variables_of(x) & set(free_names))
        if bad:
            viols.append(_viol("hoisted-free", "hoisted %s = %s mentions free %s (expression %s, free=%s)"
                               % (v, x, bad, e, free_names)))
    # value
    subst = {}
    for v, x in assigned:
        if isinstance(v, p.Variable):
            subst.setdefault(v.name, x)
    decided = 0
    for pt in points(names_in(t)):
        try:
            a = ev(e, pt)
        except Skip:
            continue
        except Unsupported:
            return None
        try:
            b = ev(result, pt, subst)
        except Skip:
            continue
        except Unsupported as ex:
            viols.append(_viol("value", "result %s (with %s) cannot be evaluated: %s" % (result, subst, ex)))
            break
        decided += 1
        if a != b or isinstance(a, bool) != isinstance(b, bool):
            viols.append(_viol("value", "collapse_constants(%s, free=%s) = %s with %s; at %s original %s, rewritten %s"
                               % (e, free_names, result, {k: str(x) for k, x in subst.items()},
                                  {k: str(x) for k, x in sorted(pt[1].items())}, a, b)))
            break
    return {"hoisted": len(assigned), "decided_points": decided, "viols": viols,
            "result": str(result)}


def replay(inp):
    r = check(inp)
    if r is None:
        return {"fails": False, "detail": "outside the domain"}
    vs = r["viols"]
    if inp.get("clause"):
        vs = [v for v in vs if v["clause"] == inp["clause"]]
    return {"fails": bool(vs), "detail": "; ".join(v["detail"] for v in vs[:2]) if vs else None}


def _fp_logical_not(inp):
    """clause exception-extended only: the expression contains a logical 'not' and the exception is
    the KeyError on that very node (pymbolic's CombineMapper.map_logical_not does not call combine(),
    so _ConstantFindingMapper never classifies the node)"""
    if inp.get("clause") != "exception-extended" or "not" not in kinds_in(inp["expr"]):
        return False
    r = check(inp)
    if r is None:
        return False
    vs = [v for v in r["viols"] if v["clause"] == "exception-extended"]
    return bool(vs) and all("raised KeyError: LogicalNot(" in v["detail"] for v in vs)


FINGERPRINTS = {"logical_not_keyerror": _fp_logical_not}


# {{{ generation

VARS = ["y", "t", "dt", "<state>y", "<p>k", "x"]
FUNCS = ["f", "<func>g"]
CONSTS = [["int", 0], ["int", 1], ["int", 2], ["int", -1], ["float", "0.5"]]


def rand_tree(rng, depth, extended):
    r = rng.random()
    if depth <= 0 or r < 0.28:
        if rng.random() < 0.75:
            return ["var", rng.choice(VARS)]
        return rng.choice(CONSTS)
    if r < 0.46:
        return ["sum"] + [rand_tree(rng, depth - 1, extended) for i in range(rng.choice([2, 2, 3, 4]))]
    if r < 0.62:
        return ["prod"] + [rand_tree(rng, depth - 1, extended) for i in range(rng.choice([2, 2, 3, 4]))]
    if r < 0.78:
        kw = {}
        for n in rng.sample(["t", "y"], rng.choice([0, 0, 1, 2])):
            kw[n] = rand_tree(rng, depth - 1, extended)
        return ["call", ["var", rng.choice(FUNCS)], [rand_tree(rng, depth - 1, extended) for i in range(rng.randint(0, 2))], kw]
    if r < 0.85:
        return ["pow", rand_tree(rng, depth - 1, extended), rng.choice([["int", 2], ["int", 3], ["int", -1],
                                                                        rand_tree(rng, depth - 1, extended)])]
    if r < 0.91:
        return ["quot", rand_tree(rng, depth - 1, extended), rand_tree(rng, depth - 1, extended)]
    if r < 0.95 or not extended:
        return ["sub", ["var", rng.choice(VARS)], [rand_tree(rng, depth - 1, extended) for i in range(rng.choice([1, 1, 2]))]]
    r2 = rng.random()
    if r2 < 0.5:
        return ["if", ["cmp", rng.choice(CMP_OPS), rand_tree(rng, depth - 1, extended), rand_tree(rng, depth - 1, extended)],
                rand_tree(rng, depth - 1, extended), rand_tree(rng, depth - 1, extended)]
    if r2 < 0.75:
        return ["cmp", rng.choice(CMP_OPS), rand_tree(rng, depth - 1, extended), rand_tree(rng, depth - 1, extended)]
    return [rng.choice(["and", "or"]), ["cmp", "<", rand_tree(rng, depth - 1, extended), ["int", 1]],
            ["not", ["cmp", "==", rand_tree(rng, depth - 1, extended), ["int", 0]]]]


def small_trees(atoms, depth):
    levels = [list(atoms)]
    f = ["var", "f"]
    for d in range(1, depth):
        prev = [t for lv in levels for t in lv]
        last = levels[-1]
        cur = []
        for a, b in itertools.product(prev, prev):
            if a in last or b in last:
                cur.append(["sum", a, b])
                cur.append(["prod", a, b])
                cur.append(["pow", a, b])
                cur.append(["call", f, [a], {"t": b}])
        for a in last:
            cur.append(["call", f, [a]])
        levels.append(cur)
    return [t for lv in levels for t in lv]


def subsets(names):
    names = sorted(names)
    for k in range(len(names) + 1):
        for c in itertools.combinations(names, k):
            yield list(c)

# }}}


def bounded(payload):
    budget = payload.get("budget") or {}
    seed = payload.get("seed", 0)
    tier = payload.get("tier", "quick")
    rng = random.Random(seed)
    n_random = budget.get("random_expressions", 2500 if tier == "quick" else 40000)
    max_fail = budget.get("max_failures", 20)
    active = {}
    for e in payload.get("known", []):
        fp = e.get("fingerprint")
        if fp in FINGERPRINTS:
            active[fp] = FINGERPRINTS[fp]

    evals = 0
    skipped = 0
    distinct = set()
    failures = []
    classes = {}
    suppressed = {}
    hoisted_total = 0
    decided_points = 0
    samples = []
    parts = {}

    def run(inp):
        nonlocal evals, skipped, hoisted_total, decided_points
        r = check(inp)
        if r is None:
            skipped += 1
            return
        evals += 1
        hoisted_total += r["hoisted"]
        decided_points += r.get("decided_points", 0)
        if r["hoisted"] > 0:
            distinct.add(json.dumps(inp, sort_keys=True))
        for clause in sorted(set(v["clause"] for v in r["viols"])):
            classes[clause] = classes.get(clause, 0) + 1
            finp = dict(inp, clause=clause)
            hit = [n for n, fp in sorted(active.items()) if fp(finp)]
            if hit:
                suppressed[hit[0]] = suppressed.get(hit[0], 0) + 1
                continue
            mine = [f for f in failures if f["oracle"] == clause]
            if len(mine) < 5:
                failures.append({"oracle": clause, "input": finp, "detail": replay(finp).get("detail"),
                                 "matching_fingerprints": sorted(n for n, fp in FINGERPRINTS.items() if fp(finp))})
            else:
                # keep the smallest failing inputs of a class
                big = max(mine, key=lambda f: size(f["input"]["expr"]))
                if size(inp["expr"]) < size(big["input"]["expr"]):
                    failures.remove(big)
                    failures.append({"oracle": clause, "input": finp, "detail": replay(finp).get("detail"),
                                     "matching_fingerprints": sorted(n for n, fp in FINGERPRINTS.items() if fp(finp))})

    # ---- exhaustive: depth <= 3 over + * ** f(.) f(., t=.) and atoms y, t, 2; every subset of {y, t, f} free ----
    trees = small_trees([["var", "y"], ["var", "t"], ["int", 2]], 3 if tier != "quick" else 2)
    if tier == "quick":
        # depth 3 over two atoms only
        trees = trees + [t for t in small_trees([["var", "y"], ["var", "t"]], 3) if t not in trees][::3]
    n_exh = 0
    for t in trees:
        for free in subsets(names_in(t)):
            run({"expr": t, "free": free})
            n_exh += 1
    # a fixed family with comparisons, logic and conditionals (the rest of the expression language)
    y, tt, two = ["var", "y"], ["var", "t"], ["int", 2]
    ext = []
    for a, b in itertools.product([y, tt, ["sum", tt, two], ["prod", y, tt]], repeat=2):
        c1, c2 = ["cmp", "<", a, b], ["cmp", "==", b, two]
        ext += [c1, ["and", c1, c2], ["or", c1, c2], ["not", c1], ["and", c1, ["not", c2]],
                ["if", c1, a, b], ["if", ["not", c1], a, ["sum", b, two]], ["sum", ["if", c1, a, b], ["prod", tt, two]]]
    for t in ext:
        for free in subsets(names_in(t)):
            run({"expr": t, "free": free})
            n_exh += 1
    parts["exhaustive_inputs"] = n_exh
    samples.append({"expr": ["sum", ["var", "y"], ["prod", ["int", -1],
                                                   ["call", ["var", "f"], [["sum", ["var", "t"], ["var", "dt"]], ["var", "y"]]]]],
                    "free": ["y"]})

    # ---- random ----
    for i in range(n_random):
        extended = rng.random() < 0.2
        t = rand_tree(rng, rng.randint(1, 4), extended)
        ns = sorted(names_in(t))
        free = [n for n in ns if rng.random() < 0.4]
        if rng.random() < 0.1:
            free.append("unused_free")
        inp = {"expr": t, "free": free}
        if i < 3:
            samples.append(inp)
        run(inp)
    parts["random_expressions"] = n_random

    known_hits = []
    for e in payload.get("known", []):
        if e.get("native") is None:
            continue
        if replay(e["native"]).get("fails"):
            known_hits.append("%s: %s" % (e.get("id"), e.get("what")))

    parts.update({"skipped_outside_domain": skipped, "hoisted_subexpressions": hoisted_total,
                  "points_decided": decided_points, "violations_by_clause": classes,
                  "suppressed_by_known_fingerprint": suppressed})
    failures.sort(key=lambda f: (f["oracle"], size(f["input"]["expr"])))
    return {"evaluations": evals, "distinct_nontrivial": len(distinct),
            "rule": "real collapse_constants(expr, free Variables, assign_func, new_var_func).  Exhaustive: expressions "
                    "over + * ** f(x) f(x, t=y) and atoms y, t, 2 (%s) x every subset of their names (function "
                    "symbol included) declared free; then seeded random expressions of depth <= 4 (sums/products of "
                    "2-4 operands, calls with keyword arguments, powers, quotients, subscripts; 20%% also with "
                    "comparisons, and/or/not, If) x random free sets (sometimes with a name not in the expression). "
                    "Non-trivial = at least one subexpression was hoisted; distinct = distinct (expression, free set)"
                    % ("depth <= 3" if tier != "quick" else "depth <= 2, and every 3rd of depth 3 over y, t"),
            "bound": "depth <= 4, <= 4 operands per sum/product; 4 rational points per input, function symbols and "
                     "subscripted names as hash tables",
            "samples": samples[:4], "failures": failures[:max_fail], "known_hits": known_hits,
            "parts": parts, "exhaustive": False}
