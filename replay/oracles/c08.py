"""Native oracle for C08 (declared read/write sets cover what a statement really touches).

Drives the real NumpyInterpreter.evaluate_condition / exec_* on ONE real statement with an
instrumented `context` (dict subclass recording every key looked up, tested, stored or deleted) and
compares with the real get_read_variables() / get_written_variables().

Input (JSON):
  {"stmt": <statement>, "ctx": {name: number | bool | [numbers] (-> numpy array)}}
statement:
  {"t": "Assign",  "lhs": name, "sub": expr|null, "rhs": expr, "loops": [[ident, lo, hi], ...], "cond": expr}
  {"t": "Call",    "assignees": [names], "f": "<func>f", "args": [expr], "kw": {name: expr}, "cond": expr}
  {"t": "Yield",   "expr": expr, "time": expr, "cond": expr}
  {"t": "Fail" | "Raise" | "Switch", "cond": expr}
  {"t": "Implicit", "assignees": [..], "solve": [..], "exprs": [expr], "params": {name: expr}, "cond": expr}
expr:
  number | bool | "name" (variable) | ["+"|"*"|"-"|"/"|"%"|"**", e, e] | ["[]", e, e] |
  ["call", fname, [e...], {kw: e}] | ["cmp", op, e, e] | ["not", e] | ["and"|"or"|"min"|"max", e, ...] |
  ["if", c, t, e] | ["arr", e, ...] (numpy object array of expressions) | [".", e, attribute] (attribute lookup)
"""
import copy
import dataclasses
import itertools
import json
import random
from collections.abc import Mapping

import numpy as np

from dagrt import language as lang
from dagrt.exec_numpy import NumpyInterpreter
from dagrt.expression import EvaluationMapper
import pymbolic.primitives as P


# ---- expression codec ----------------------------------------------------------

def dec(e):
    """JSON -> pymbolic (real objects handed to the real statement classes)"""
    if isinstance(e, str):
        return P.Variable(e)
    if isinstance(e, (bool, int, float)) or e is None:
        return e
    if isinstance(e, dict):
        return e["str"]                 # a Python string left in an expression slot (statements built by hand)
    op = e[0]
    if op == "+":
        return P.Sum((dec(e[1]), dec(e[2])))
    if op == "*":
        return P.Product((dec(e[1]), dec(e[2])))
    if op == "-":
        return P.Sum((dec(e[1]), P.Product((-1, dec(e[2])))))
    if op == "/":
        return P.Quotient(dec(e[1]), dec(e[2]))
    if op == "%":
        return P.Remainder(dec(e[1]), dec(e[2]))
    if op == "**":
        return P.Power(dec(e[1]), dec(e[2]))
    if op == "[]":
        return P.Subscript(dec(e[1]), dec(e[2]))
    if op == "call":
        args = tuple(dec(a) for a in e[2])
        kw = e[3] if len(e) > 3 else {}
        if kw:
            from constantdict import constantdict
            return P.CallWithKwargs(P.Variable(e[1]), args,
                                    constantdict({k: dec(v) for k, v in sorted(kw.items())}))
        return P.Call(P.Variable(e[1]), args)
    if op == "cmp":
        return P.Comparison(dec(e[2]), e[1], dec(e[3]))
    if op == "not":
        return P.LogicalNot(dec(e[1]))
    if op == "and":
        return P.LogicalAnd(tuple(dec(a) for a in e[1:]))
    if op == "or":
        return P.LogicalOr(tuple(dec(a) for a in e[1:]))
    if op == "min":
        return P.Min(tuple(dec(a) for a in e[1:]))
    if op == "max":
        return P.Max(tuple(dec(a) for a in e[1:]))
    if op == "if":
        return P.If(dec(e[1]), dec(e[2]), dec(e[3]))
    if op == ".":
        return P.Lookup(dec(e[1]), e[2])                  # attribute lookup: a.size, y.real
    if op == "arr":
        # a numpy object array with symbolic entries (the Python generator and the interpreter take these entry by entry)
        out = np.empty(len(e) - 1, dtype=object)
        for i, a in enumerate(e[1:]):
            out[i] = dec(a)
        return out
    raise ValueError("bad expression %r" % (e,))


def svars(e):
    """independent syntactic traversal of the JSON tree: variable names (call targets excluded)"""
    if isinstance(e, str):
        return {e}
    if isinstance(e, (bool, int, float)) or e is None or isinstance(e, dict):
        return set()
    op = e[0]
    if op == "call":
        out = set()
        for a in e[2]:
            out |= svars(a)
        for v in (e[3] if len(e) > 3 else {}).values():
            out |= svars(v)
        return out
    if op == "cmp":
        return svars(e[2]) | svars(e[3])
    if op == ".":
        return svars(e[1])
    out = set()
    for a in e[1:]:
        out |= svars(a)
    return out


class UserError(Exception):
    pass


def functions():
    return {"<func>f": lambda x=0: x + 1,
            "<func>g": lambda x=0, y=0: (x, y + 1),
            "<func>mk": lambda x=0: np.full(4, float(x) if isinstance(x, (int, float)) else 0.0)}


def build_stmt(s):
    cond = dec(s.get("cond", True))
    t = s["t"]
    kw = dict(id="s0", depends_on=frozenset(), condition=cond)
    if t == "Assign":
        sub = s.get("sub")
        return lang.Assign(assignee=s["lhs"], assignee_subscript=() if sub is None else (dec(sub),),
                           expression=dec(s["rhs"]),
                           loops=[(i, dec(lo), dec(hi)) for i, lo, hi in s.get("loops", [])], **kw)
    if t == "Call":
        return lang.AssignFunctionCall(assignees=tuple(s["assignees"]), function_id=s["f"],
                                       parameters=tuple(dec(a) for a in s.get("args", [])),
                                       kw_parameters={k: dec(v) for k, v in sorted(s.get("kw", {}).items())},
                                       **kw)
    if t == "Yield":
        return lang.YieldState(expression=dec(s["expr"]), component_id="comp", time=dec(s["time"]),
                               time_id="tid", **kw)
    if t == "Fail":
        return lang.FailStep(**kw)
    if t == "Raise":
        return lang.Raise(UserError, "msg", **kw)
    if t == "Switch":
        return lang.SwitchPhase("other", **kw)
    if t == "Implicit":
        return lang.AssignImplicit(tuple(s["assignees"]), tuple(s["solve"]),
                                   tuple(dec(x) for x in s["exprs"]),
                                   {k: dec(v) for k, v in sorted(s.get("params", {}).items())},
                                   "solver", **kw)
    raise ValueError("bad statement type %r" % t)


def evars(e):
    """independent traversal of REAL pymbolic objects (dataclass fields), not DependencyMapper:
    names of all variables occurring in e; symbols in call-target position excluded"""
    if isinstance(e, P.Variable):
        return {e.name}
    out = set()
    if isinstance(e, (P.Call, P.CallWithKwargs)):
        if not isinstance(e.function, P.Variable):
            out |= evars(e.function)
        out |= evars(tuple(e.parameters))
        if isinstance(e, P.CallWithKwargs):
            out |= evars(tuple(e.kw_parameters.values()))
        return out
    if isinstance(e, P.ExpressionNode):
        for f in dataclasses.fields(e):
            out |= evars(getattr(e, f.name))
        return out
    if isinstance(e, (tuple, list)):
        for c in e:
            out |= evars(c)
        return out
    if isinstance(e, np.ndarray) and e.dtype == object:
        for c in e.flat:
            out |= evars(c)
        return out
    if isinstance(e, Mapping):
        for c in e.values():
            out |= evars(c)
    return out


def syntactic(stmt):
    """independent access description of a real statement object from its syntax (the statement may
    differ from the JSON: the Assign constructor flattens, e.g. 0*x -> 0):
    positions -> variable sets; loop identifiers; written names"""
    pos = {"cond": evars(getattr(stmt, "condition", True))}
    idents = set()
    writes = set()
    if isinstance(stmt, lang.Assign):
        idents = {l[0] for l in stmt.loops}
        pos["rhs"] = evars(stmt.rhs)
        if isinstance(stmt.lhs, P.Subscript):
            pos["lhs_sub"] = evars(stmt.lhs.index)
            writes = evars(stmt.lhs.aggregate)
        else:
            pos["lhs_sub"] = set()
            writes = evars(stmt.lhs)
        pos["bounds"] = set()
        for _, lo, hi in stmt.loops:
            pos["bounds"] |= evars(lo) | evars(hi)
    elif isinstance(stmt, lang.AssignFunctionCall):
        pos["args"] = evars(tuple(stmt.parameters)) | evars(stmt.kw_parameters)
        writes = set(stmt.assignees)
    elif isinstance(stmt, lang.YieldState):
        pos["yield"] = evars(stmt.expression) | evars(stmt.time)
    elif isinstance(stmt, lang.AssignImplicit):
        pos["exprs"] = evars(tuple(stmt.expressions)) - set(stmt.solve_variables)
        pos["params"] = evars(stmt.other_params)
        writes = set(stmt.assignees)
    return pos, idents, writes


# ---- instrumented store --------------------------------------------------------

class RecordingContext(dict):
    def __init__(self, *a, **k):
        dict.__init__(self, *a, **k)
        self.reads = []
        self.writes = []
        # reads of a key that this statement execution has not written yet: these come from the
        # enclosing scope even when the key is named like one of the statement's loop counters
        self.scope_reads = []

    def _read(self, k):
        self.reads.append(k)
        if k not in self.writes:
            self.scope_reads.append(k)

    def __getitem__(self, k):
        self._read(k)
        return dict.__getitem__(self, k)

    def __contains__(self, k):
        self._read(k)
        return dict.__contains__(self, k)

    def get(self, k, d=None):
        self._read(k)
        return dict.get(self, k, d)

    def __setitem__(self, k, v):
        self.writes.append(k)
        dict.__setitem__(self, k, v)

    def __delitem__(self, k):
        self.writes.append(k)
        dict.__delitem__(self, k)

    def pop(self, k, *d):
        self.writes.append(k)
        return dict.pop(self, k, *d)

    def setdefault(self, k, d=None):
        self._read(k)
        if not dict.__contains__(self, k):
            self.writes.append(k)
        return dict.setdefault(self, k, d)

    def update(self, *a, **k):
        for key in dict(*a, **k):
            self.writes.append(key)
        dict.update(self, *a, **k)


def mk_ctx(ctx):
    out = {}
    for k, v in ctx.items():
        out[k] = np.array(v, dtype=float) if isinstance(v, list) else v
    return out


def same(a, b):
    if isinstance(a, np.ndarray) or isinstance(b, np.ndarray):
        try:
            return (isinstance(a, np.ndarray) and isinstance(b, np.ndarray)
                    and a.shape == b.shape and bool(np.array_equal(a, b, equal_nan=True)))
        except Exception:
            return False
    try:
        return type(a) is type(b) and (a == b or (a != a and b != b))
    except Exception:
        return False


def observe(inp):
    """runs the real interpreter on the statement; returns the measured facts"""
    s = inp["stmt"]
    stmt = build_stmt(s)
    if inp.get("grow_loops"):
        # a history: the sets are asked for once, then the caller extends the loop nest it handed in (Assign keeps the
        # caller's list), and the statement is executed: the declared sets must describe the statement as it is now
        stmt.get_read_variables()
        stmt.get_written_variables()
        loops = getattr(stmt, "loops", None)
        if not isinstance(loops, list):
            raise ValueError("the statement does not keep a list of loops")
        for i, lo, hi in inp["grow_loops"]:
            loops.append((i, dec(lo), dec(hi)))
    code = lang.DAGCode.from_phases_list([lang.ExecutionPhase("ph", "ph", [stmt])], "ph")
    interp = NumpyInterpreter(code, functions())
    before = mk_ctx(inp.get("ctx", {}))
    rec = RecordingContext(copy.deepcopy(before))
    interp.context = rec
    interp.eval_mapper = EvaluationMapper(rec, interp.functions)
    outcome = "skipped(guard false)"
    try:
        if interp.evaluate_condition(stmt):
            getattr(interp, stmt.exec_method)(stmt)
            outcome = "executed"
    except Exception as ex:           # exceptional exit: what was touched so far still counts
        outcome = "raised " + type(ex).__name__
    reads, writes = set(rec.reads), set(rec.writes)
    observe.scope_reads = set(rec.scope_reads)
    after = dict(rec)
    changed = set()
    for k in set(before) | set(after):
        if k not in before or k not in after or not same(before[k], after[k]):
            changed.add(k)
    R = set(stmt.get_read_variables())
    W = set(stmt.get_written_variables())
    return stmt, reads, writes, changed, R, W, outcome


def identity_failures(stmt):
    out = []
    R, W = stmt.get_read_variables(), stmt.get_written_variables()
    from pymbolic.mapper import IdentityMapper
    for name, m in (("python identity function", lambda e: e), ("pymbolic IdentityMapper", IdentityMapper())):
        try:
            s2 = stmt.map_expressions(m)
        except Exception:
            continue                   # the mapper cannot process this statement: clause not applicable
        R2, W2 = s2.get_read_variables(), s2.get_written_variables()
        if set(R2) != set(R) or set(W2) != set(W):
            out.append("map_expressions(%s) changes the sets: reads %s -> %s, writes %s -> %s"
                       % (name, sorted(R), sorted(R2), sorted(W), sorted(W2)))
    return out


def evaluate(inp):
    """-> (violations, info); violations: list of (clause, detail, data)"""
    stmt, reads, writes, changed, R, W, outcome = observe(inp)
    pos, idents, _ = syntactic(stmt)
    viol = []
    # a read is excused as a loop counter only if the statement itself had bound that name before
    und_r = (reads - R - W - idents) | (getattr(observe, "scope_reads", set()) - R - W)
    if und_r:
        viol.append(("reads", "%s: reads %s not in declared reads %s / writes %s (%s)"
                     % (stmt, sorted(und_r), sorted(R), sorted(W), outcome), sorted(und_r)))
    und_w = (writes | changed) - W - idents
    if und_w:
        viol.append(("writes", "%s: assigns/changes %s not in declared writes %s (%s)"
                     % (stmt, sorted(und_w), sorted(W), outcome), sorted(und_w)))
    for d in identity_failures(stmt):
        viol.append(("identity", d, []))
    return viol, {"outcome": outcome, "touched": bool(reads or writes), "reads": sorted(reads),
                  "writes": sorted(writes | changed)}


def replay(inp):
    try:
        viol, info = evaluate(inp)
    except Exception as ex:
        return {"error": "cannot build/evaluate input: %s: %s" % (type(ex).__name__, ex)}
    return {"fails": bool(viol), "detail": "; ".join("[%s] %s" % (c, d) for c, d, _ in viol) or None}


# ---- fingerprints of known findings ------------------------------------------------

def fp_d8(inp):
    """D8: the ONLY thing wrong is that an Assign really reads variables that occur solely in its
    left-hand-side subscript or in a loop bound (not in rhs / guard, where they would be declared)."""
    try:
        if inp["stmt"]["t"] != "Assign":
            return False
        viol, _ = evaluate(inp)
        if not viol or any(c != "reads" for c, _, _ in viol):
            return False
        pos, idents, _ = syntactic(build_stmt(inp["stmt"]))
        hidden = (pos["lhs_sub"] | pos["bounds"]) - pos["rhs"] - pos["cond"] - idents
        for _, _, names in viol:
            if not names or not set(names) <= hidden:
                return False
        return True
    except Exception:
        return False


FINGERPRINTS = {"d8_lhs_subscript_or_loop_bound_only": fp_d8}


# ---- input generation --------------------------------------------------------------

BASE_CTX = {"<func>gv": 2, "<builtin>bv": 1, "x": 5, "j": 1, "n": 3, "<p>k": 2, "<state>y": 4, "<t>": 0.0, "<dt>": 0.5,
            "c": True, "d": False, "a": [0.0, 1.0, 2.0, 3.0], "<state>v": [4.0, 5.0, 6.0, 7.0]}


def contexts():
    c1 = dict(BASE_CTX)
    c2 = dict(BASE_CTX, c=False, d=True)
    c3 = dict(BASE_CTX, n=0, j=0)               # zero-trip loops, other index
    c3["<p>k"] = 7
    c4 = {k: v for k, v in BASE_CTX.items() if k not in ("x", "d", "<state>y")}   # unset names
    return [c1, c2, c3, c4]


CONDS = [True, "c", ["not", "c"], ["and", "c", "d"], ["cmp", ">", "x", 0], ["or", "d", ["cmp", "<", "j", "n"]]]


def exhaustive_statements():
    lhs = [("x", None), ("a", 0), ("a", "j"), ("a", ["%", "<p>k", 4]), ("a", "i"),
           ("<state>v", ["+", "j", 1]), ("<state>v", ["%", ["+", "i", "l"], 4])]
    rhs = [7, "x", ["+", "x", "<state>y"], ["[]", "a", "j"], ["[]", "<state>v", "i"],
           ["call", "<func>f", ["n"]], ["if", "c", "x", "j"], ["min", "x", "n"], "i",
           ["*", "<dt>", ["[]", "a", ["%", "<p>k", 4]]]]
    loops = [[], [["i", 0, 3]], [["i", 0, "n"]], [["i", "j", "n"]],
             [["i", 0, 2], ["l", 0, ["+", "<p>k", -1]]], [["i", 0, 0]],
             [["l", ["-", "n", "x"], ["min", "n", 2]], ["i", 0, ["[]", "a", 2]]],
             # a bound that names a variable identical to the counter ("continue from the current i"):
             # bounds are evaluated in the enclosing scope before the counter is bound
             [["i", "i", "n"]], [["l", 0, 2], ["i", "l", ["+", "i", 1]]]]
    for (l, sub), r, lp, c in itertools.product(lhs, rhs, loops, CONDS):
        s = {"t": "Assign", "lhs": l, "sub": sub, "rhs": r, "loops": lp, "cond": c}
        used = svars(r) | svars(sub)
        if ({"i", "l"} & used) - {x[0] for x in lp}:
            continue                       # loop counter used outside its loop: not a sensible statement
        yield s
    args = [[], ["x"], [["+", "j", "<p>k"]], [["[]", "a", "j"]], [["call", "<func>f", ["n"]]]]
    kws = [{}, {"x": "n"}, {"y": ["[]", "<state>v", 1]}]
    for (f, asg), a, k, c in itertools.product(
            [("<func>f", ["x"]), ("<func>g", ["x", "j"]), ("<func>mk", ["a"]), ("<func>f", []),
             ("<builtin>len", ["n"])], args, kws, CONDS):
        if f == "<builtin>len" and (k or len(a) != 1):
            continue
        if f in ("<func>f", "<func>mk") and (len(a) > 1 or (a and "x" in k) or "y" in k):
            continue
        if f == "<func>g" and a and "x" in k:
            continue
        yield {"t": "Call", "assignees": asg, "f": f, "args": a, "kw": k, "cond": c}
    for e, t, c in itertools.product(
            ["x", ["[]", "a", "j"], ["+", "<state>y", ["*", "<dt>", "x"]], ["call", "<func>f", ["<p>k"]], 1],
            [0, "<t>", ["+", "<t>", "<dt>"], "n", "x"], CONDS):     # "x" has no value in one of the contexts
        yield {"t": "Yield", "expr": e, "time": t, "cond": c}
    for t, c in itertools.product(["Fail", "Raise", "Switch"], CONDS):
        yield {"t": t, "cond": c}
    # numpy object arrays of expressions (numeric and symbolic entries mixed, a number first or last)
    arrs = [["arr", 1, ["*", 2, "<state>y"], "x"], ["arr", "x", 1, 2], ["arr", 0, "j"], ["arr", ["[]", "a", "j"], 3],
            ["arr", 1, 2], ["*", "<dt>", ["arr", 0.5, "n"]], ["arr", 2, ["call", "<func>f", ["<p>k"]]]]
    for r, c in itertools.product(arrs, CONDS):
        yield {"t": "Assign", "lhs": "r", "sub": None, "rhs": r, "loops": [], "cond": c}
        yield {"t": "Yield", "expr": r, "time": "<t>", "cond": c}
        yield {"t": "Call", "assignees": ["x"], "f": "<func>f", "args": [r], "kw": {}, "cond": c}
    # a Python string left in an expression slot (a statement built by hand, not through the builder, which parses strings): the
    # declared sets treat it as opaque, so the interpreter must not look anything up because of it
    for c in CONDS[:3]:
        yield {"t": "Assign", "lhs": "a", "sub": "i", "rhs": ["*", "i", "x"], "loops": [["i", 0, {"str": "n"}]], "cond": c}
        yield {"t": "Assign", "lhs": "r", "sub": None, "rhs": {"str": "x + <state>y"}, "loops": [], "cond": c}
        yield {"t": "Call", "assignees": ["x"], "f": "<func>f", "args": [{"str": "j + <p>k"}], "kw": {}, "cond": c}
        yield {"t": "Call", "assignees": ["x"], "f": "<func>f", "args": [], "kw": {"x": {"str": "n"}}, "cond": c}
        yield {"t": "Yield", "expr": {"str": "<state>y"}, "time": "<t>", "cond": c}
    # a name with a <func> / <builtin> tag used as a VALUE (the interpreter looks in the variable context first)
    for c in CONDS[:3]:
        yield {"t": "Assign", "lhs": "r", "sub": None, "rhs": ["+", "<func>gv", ["*", 2, "x"]], "loops": [], "cond": c}
        yield {"t": "Call", "assignees": ["x"], "f": "<func>f", "args": ["<func>gv"], "kw": {}, "cond": c}
        yield {"t": "Assign", "lhs": "a", "sub": ["%", "<builtin>bv", 2], "rhs": 1, "loops": [["i", 0, "<func>gv"]], "cond": c}
    # attribute lookups (a.size, <state>y.real, ...) in every position that has its own traversal
    lk = [[".", "a", "size"], [".", "<state>y", "real"], ["+", [".", "x", "real"], [".", "<state>v", "size"]]]
    for e_, c in itertools.product(lk, CONDS):
        yield {"t": "Assign", "lhs": "a", "sub": "i", "rhs": ["*", 2, "i"], "loops": [["i", 0, e_]], "cond": c}
        yield {"t": "Assign", "lhs": "r", "sub": None, "rhs": e_, "loops": [], "cond": c}
        yield {"t": "Assign", "lhs": "a", "sub": ["%", e_, 2], "rhs": 1, "loops": [], "cond": c}
        yield {"t": "Yield", "expr": e_, "time": ["+", "<t>", [".", "<dt>", "real"]], "cond": c}
        yield {"t": "Call", "assignees": ["x"], "f": "<func>f", "args": [e_], "kw": {}, "cond": c}
        yield {"t": "Call", "assignees": ["x"], "f": "<func>f", "args": [], "kw": {"x": e_}, "cond": c}
        yield {"t": "Assign", "lhs": "r", "sub": None, "rhs": 1, "loops": [], "cond": ["cmp", ">", e_, 0]}
    for c in CONDS:
        yield {"t": "Implicit", "assignees": ["x"], "solve": ["s"],
               "exprs": [["-", "s", ["*", "<dt>", ["call", "<func>f", [["+", "s", "j"]]]]]],
               "params": {"guess": "<state>y"}, "cond": c}


SCALARS = ["x", "j", "n", "<p>k", "<state>y", "<dt>"]
ARRAYS = ["a", "<state>v"]


def rexpr(rng, depth, idents):
    r = rng.random()
    if depth <= 0 or r < 0.3:
        pool = SCALARS + list(idents) + [0, 1, 2, 3]
        return rng.choice(pool)
    k = rng.choice(["+", "*", "-", "[]", "call", "if", "min", "%", "cmpint"])
    if k in ("+", "*", "-"):
        return [k, rexpr(rng, depth - 1, idents), rexpr(rng, depth - 1, idents)]
    if k == "%":
        return ["%", rexpr(rng, depth - 1, idents), rng.choice([2, 3, 4])]
    if k == "[]":
        return ["[]", rng.choice(ARRAYS), ["%", rexpr(rng, depth - 1, idents), 4]]
    if k == "call":
        if rng.random() < 0.5:
            return ["call", "<func>f", [rexpr(rng, depth - 1, idents)]]
        return ["call", "<func>f", [], {"x": rexpr(rng, depth - 1, idents)}]
    if k == "if":
        return ["if", rcond(rng, depth - 1, idents), rexpr(rng, depth - 1, idents), rexpr(rng, depth - 1, idents)]
    if k == "min":
        return [rng.choice(["min", "max"]), rexpr(rng, depth - 1, idents), rexpr(rng, depth - 1, idents)]
    return ["cmp", rng.choice(["<", ">", "==", "<=", "!="]), rexpr(rng, depth - 1, idents),
            rexpr(rng, depth - 1, idents)]


def rcond(rng, depth, idents=()):
    r = rng.random()
    if r < 0.25:
        return True
    if depth <= 0 or r < 0.5:
        return rng.choice(["c", "d", ["not", "c"]])
    if r < 0.75:
        return ["cmp", rng.choice(["<", ">", "==", "<=", "!="]), rexpr(rng, depth - 1, ()), rexpr(rng, depth - 1, ())]
    return [rng.choice(["and", "or"]), rcond(rng, depth - 1), rcond(rng, depth - 1)]


def random_input(rng):
    t = rng.choice(["Assign", "Assign", "Assign", "Call", "Yield"])
    cond = rcond(rng, 2)
    if t == "Assign":
        nl = rng.choice([0, 0, 1, 1, 2])
        idents = ["i", "l"][:nl]
        loops = []
        for ident in idents:
            lo = rng.choice([0, 0, 1, rexpr(rng, 1, ())])
            hi = rng.choice([2, 3, "n", ["+", 1, ["%", rexpr(rng, 1, ()), 3]]])
            loops.append([ident, lo, hi])
        if rng.random() < 0.5:
            lhs, sub = rng.choice(["x", "j", "<state>y", "t0"]), None
        else:
            lhs, sub = rng.choice(ARRAYS), ["%", rexpr(rng, 1, idents), 4]
            if rng.random() < 0.3:
                sub = rng.choice(["j", "<p>k", 0] + idents)
        s = {"t": "Assign", "lhs": lhs, "sub": sub, "rhs": rexpr(rng, 2, idents), "loops": loops, "cond": cond}
    elif t == "Call":
        f = rng.choice(["<func>f", "<func>g", "<func>mk"])
        asg = {"<func>f": ["x"], "<func>g": ["x", "t0"], "<func>mk": ["a"]}[f]
        if rng.random() < 0.5:
            s = {"t": "Call", "assignees": asg, "f": f, "args": [rexpr(rng, 2, ())], "kw": {}, "cond": cond}
        else:
            s = {"t": "Call", "assignees": asg, "f": f, "args": [], "kw": {"x": rexpr(rng, 2, ())}, "cond": cond}
    else:
        s = {"t": "Yield", "expr": rexpr(rng, 2, ()), "time": rng.choice(["<t>", ["+", "<t>", "<dt>"], 0]),
             "cond": cond}
    ctx = dict(BASE_CTX)
    for k in SCALARS[:5]:
        ctx[k] = rng.randint(0, 6)
    ctx["c"], ctx["d"] = rng.random() < 0.7, rng.random() < 0.5
    if rng.random() < 0.2:
        ctx.pop(rng.choice(sorted(ctx)))
    return {"stmt": s, "ctx": ctx}


def bounded(payload):
    budget = payload.get("budget", {}) or {}
    seed = payload.get("seed", 0)
    tier = payload.get("tier", "quick")
    rng = random.Random(seed)
    nrand = budget.get("random", 2500 if tier == "quick" else 60000)
    known_fps = {e.get("fingerprint") for e in payload.get("known", []) if e.get("fingerprint") in FINGERPRINTS}
    evals = 0
    distinct = set()
    new_fail, fp_fail = [], []
    seen_fail = set()
    parts = {"exhaustive_inputs": 0, "random_inputs": 0, "executed": 0, "guard_false": 0, "raised": 0,
             "failing_inputs": 0, "failing_by_clause": {}, "failing_matching_fingerprint": {},
             "suppressed_by_known": 0, "build_errors": 0}
    samples = []

    def run(inp, src):
        nonlocal evals
        try:
            viol, info = evaluate(inp)
        except Exception:
            parts["build_errors"] += 1
            return
        evals += 1
        parts[src] += 1
        o = info["outcome"]
        parts["executed" if o == "executed" else "guard_false" if o.startswith("skipped") else "raised"] += 1
        if info["touched"]:
            distinct.add(json.dumps(inp, sort_keys=True))
        if len(samples) < 3 and info["touched"] and evals % 97 == 1:
            samples.append(inp)
        if viol:
            parts["failing_inputs"] += 1
            for c in sorted({c for c, _, _ in viol}):
                parts["failing_by_clause"][c] = parts["failing_by_clause"].get(c, 0) + 1
            fp = next((n for n in sorted(FINGERPRINTS) if FINGERPRINTS[n](inp)), None)
            rec = {"oracle": "+".join(sorted({c for c, _, _ in viol})), "input": inp,
                   "detail": "; ".join(d for _, d, _ in viol), "fingerprint": fp}
            key = (rec["oracle"], json.dumps(inp["stmt"], sort_keys=True))
            dup = key in seen_fail
            seen_fail.add(key)
            if fp:
                parts["failing_matching_fingerprint"][fp] = parts["failing_matching_fingerprint"].get(fp, 0) + 1
                if fp in known_fps:
                    parts["suppressed_by_known"] += 1
                elif not dup:
                    fp_fail.append(rec)
            elif not dup:
                new_fail.append(rec)

    ctxs = contexts()
    for s in exhaustive_statements():
        for c in ctxs:
            run({"stmt": s, "ctx": c}, "exhaustive_inputs")
    # histories: sets asked for, loop nest extended in place, then executed
    parts["grown_loop_nests"] = 0
    for lhs_, sub_, rhs_, lp_, grow in (
            ("a", "i", ["*", "i", "x"], [["i", 0, "n"]], [["l", 0, "<p>k"]]),
            ("a", "i", ["*", "i", "x"], [["i", 0, 3]], [["l", "j", ["+", "<state>y", 1]]]),
            ("<state>v", ["%", "i", 4], ["+", "i", "<dt>"], [["i", 0, 2]], [["l", 0, ["[]", "a", 1]]]),
            ("x", None, 7, [], [["i", 0, "n"]])):
        for c in ctxs:
            for cond in CONDS[:3]:
                run({"stmt": {"t": "Assign", "lhs": lhs_, "sub": sub_, "rhs": rhs_, "loops": lp_, "cond": cond}, "ctx": c,
                     "grow_loops": grow}, "grown_loop_nests")
    for _ in range(nrand):
        run(random_input(rng), "random_inputs")

    known_hits = []
    for e in payload.get("known", []):
        try:
            r = replay(e["native"])
        except Exception:
            r = {}
        if r.get("fails"):
            known_hits.append("%s: %s" % (e["id"], e["what"]))
    failures = (new_fail + fp_fail)[:20]
    parts["distinct_failing_statements_not_matching_any_fingerprint"] = len(new_fail)
    parts["distinct_failing_statements_matching_a_fingerprint_not_in_known"] = len(fp_fail)
    return {"evaluations": evals, "distinct_nontrivial": len(distinct),
            "rule": "exhaustive product of hand-picked shapes (7 lhs/subscript forms x 10 rhs x 7 loop nests x 6 guards "
                    "for Assign; call / keyword-call / yield / fail / raise / switch / implicit statements x 6 guards) "
                    "x 4 execution states (guards true, guards false, zero-trip bounds, unset names), then %d seeded "
                    "random statements (expression depth <= 2, <= 2 loops) in random states; each is executed by the "
                    "real NumpyInterpreter.evaluate_condition + exec_* on a recording dict (lookups, `in` tests, "
                    "stores, deletes, plus in-place value changes) and compared with the real get_read_variables / "
                    "get_written_variables; identity clause with `lambda e: e` and pymbolic IdentityMapper. "
                    "non-trivial = the run touched at least one variable; distinct = distinct (statement, state) JSON"
                    % nrand,
            "bound": "one statement; expression depth <= 2 (random) / <= 3 (hand-picked); <= 2 nested loops; 11 names "
                     "(5 int scalars, <t>, <dt>, 2 booleans, 2 arrays of length 4), loop counters i,l; 3 user functions",
            "samples": samples, "failures": failures, "known_hits": known_hits, "parts": parts,
            "exhaustive": False}
