"""C08 — declared read/write sets cover what a statement really touches.

Functions under contract (read from /repo on every run):
  dagrt/language.py: StatementBase/ConditionalStatementBase/AssignBase/Assign/AssignFunctionCall/
      YieldState .get_read_variables, AssignBase/AssignFunctionCall/YieldState .get_written_variables,
      Assign.assignee / assignee_subscript / expression
  dagrt/exec_numpy.py: NumpyInterpreter.evaluate_condition, exec_Assign (+ nested implement_loops),
      exec_AssignFunctionCall, exec_YieldState
"""
import z3
from z3 import And, Or, Not, Implies, ForAll, Select, Store, If, IntSort, BoolSort

from pyvc.values import *  # noqa
from pyvc.contracts import FunctionContract, FunctionUnit, LemmaUnit, call_by_contract
from pyvc import extract
from .dagspec import VarName, VARNAME

PROP = "C08"
LANG = "dagrt/language.py"
EXEC = "dagrt/exec_numpy.py"

Expr = z3.DeclareSort("Expr")
S8 = z3.DeclareSort("Stmt8")
NameSet = z3.ArraySort(VarName, BoolSort())
NAMESET = TSet(VARNAME)

vars_ = z3.Function("vars", Expr, NameSet)             # A-DEP: variables occurring in an expression

# statement fields
f_cond = z3.Function("st_condition", S8, Expr)
f_lhs = z3.Function("st_lhs", S8, Expr)
f_rhs = z3.Function("st_rhs", S8, Expr)
f_time = z3.Function("st_time", S8, Expr)
f_expression = z3.Function("st_expression", S8, Expr)   # YieldState.expression
f_npar = z3.Function("st_npar", S8, IntSort())
f_par = z3.Function("st_par", S8, z3.ArraySort(IntSort(), Expr))
f_kwdom = z3.Function("st_kwdom", S8, NameSet)
f_kwval = z3.Function("st_kwval", S8, z3.ArraySort(VarName, Expr))
f_nasg = z3.Function("st_nassignees", S8, IntSort())
f_asg = z3.Function("st_assignees", S8, z3.ArraySort(IntSort(), VarName))
f_funcid = z3.Function("st_function_id", S8, VarName)

# lhs structure
is_variable = z3.Function("is_Variable", Expr, BoolSort())
is_subscript = z3.Function("is_Subscript", Expr, BoolSort())
e_name = z3.Function("e_name", Expr, VarName)
e_aggregate = z3.Function("e_aggregate", Expr, Expr)
e_index = z3.Function("e_index", Expr, Expr)

# loops: list of (identifier, start, stop)
LL = z3.Datatype("LoopList")
LL.declare("LNil")
LL.declare("LCons", ("l_ident", VarName), ("l_start", Expr), ("l_stop", Expr), ("l_tail", LL))
LL = LL.create()
f_loops = z3.Function("st_loops", S8, LL)
BND = z3.Function("BND", LL, NameSet)        # variables of all loop bounds
IDENTS = z3.Function("IDENTS", LL, NameSet)  # loop identifiers

SCOPE = z3.Function("SCOPE", LL, NameSet, NameSet)   # bound variables read from the enclosing scope, given the counters already bound

EXPR = TElem("Expr", Expr)


def union(*sets):
    out = sets[0]
    a, b = z3.Bools("a b")
    orf = z3.Or(a, b).decl()
    for s in sets[1:]:
        out = z3.Map(orf, out, s)
    return out


def subset(a, b):
    v = z3.Const("v", VarName)
    return ForAll([v], Implies(Select(a, v), Select(b, v)))


def empty():
    return z3.K(VarName, z3.BoolVal(False))


def single(v):
    return Store(empty(), v, True)


def unfold_ll(l):
    """defining equations of BND / IDENTS at the list term l"""
    return [Implies(LL.is_LNil(l), And(BND(l) == empty(), IDENTS(l) == empty())),
            Implies(LL.is_LCons(l),
                    And(BND(l) == union(vars_(LL.l_start(l)), vars_(LL.l_stop(l)), BND(LL.l_tail(l))),
                        IDENTS(l) == union(single(LL.l_ident(l)), IDENTS(LL.l_tail(l)))))]


def minus(a, b):
    x, y = z3.Bools("x y")
    andf = z3.And(x, y).decl()
    notf = z3.Not(x).decl()
    return z3.Map(andf, a, z3.Map(notf, b))


def unfold_scope(l, B):
    """defining equations of SCOPE at (l, B): a loop's bounds are evaluated before its counter is bound"""
    return [Implies(LL.is_LNil(l), SCOPE(l, B) == empty()),
            Implies(LL.is_LCons(l),
                    SCOPE(l, B) == union(minus(union(vars_(LL.l_start(l)), vars_(LL.l_stop(l))), B),
                                         SCOPE(LL.l_tail(l), union(B, single(LL.l_ident(l))))))]


class VLL(V):
    def __init__(self, t):
        self.t = t
        self.ty = None

    def truth(self, it):
        for f in unfold_ll(self.t):
            it.ctx.assume(f)
        return LL.is_LCons(self.t)

    def getitem(self, it, idx, node):
        if isinstance(idx, VInt) and z3.is_int_value(idx.t) and idx.t.as_long() == 0:
            if not it.ctx.branch(LL.is_LCons(self.t), "loops[0]"):
                it.ctx.raise_("IndexError")
            for f in unfold_ll(self.t):
                it.ctx.assume(f)
            return VTuple([VARNAME.wrap(LL.l_ident(self.t)), EXPR.wrap(LL.l_start(self.t)),
                           EXPR.wrap(LL.l_stop(self.t))])
        raise Unsupported("loops index")

    def slice(self, it, sl, node):
        lo = it.ctx.deref(it.eval(sl.lower)) if sl.lower is not None else None
        if sl.upper is None and sl.step is None and isinstance(lo, VInt) and z3.is_int_value(lo.t) \
                and lo.t.as_long() == 1:
            if it.ctx.branch(LL.is_LCons(self.t), "loops[1:]"):
                r = LL.l_tail(self.t)
            else:
                r = LL.LNil
            for f in unfold_ll(self.t) + unfold_ll(r):
                it.ctx.assume(f)
            return VLL(r)
        raise Unsupported("loops slice")

    def fresh_like(self, ctx, base):
        return VLL(z3.Const(fresh_name(base), LL))

    def comprehension(self, it, e, kind):
        """{ident for ident, _, _ in loops}: the set of loop identifiers (other element expressions: unsupported)"""
        import ast as pyast
        gen = e.generators[0]
        if gen.ifs or not isinstance(gen.target, pyast.Tuple) or len(gen.target.elts) != 3:
            raise Unsupported("comprehension over loops")
        elt = e.elt if kind != "dict" else None
        if isinstance(elt, pyast.Name) and isinstance(gen.target.elts[0], pyast.Name) and elt.id == gen.target.elts[0].id:
            for f in unfold_ll(self.t):
                it.ctx.assume(f)
            return VSet(NAMESET, IDENTS(self.t))
        raise Unsupported("comprehension over loops with element %s" % pyast.unparse(e))

    def for_loop(self, it, s, k, spec, ex):
        ctx = it.ctx
        ex["$whole"] = self
        ex["$rest"] = VLL(self.t)

        whole = self.t

        def guard_fn():
            rest = ex["$rest"].t
            for f in unfold_ll(rest):
                ctx.assume(f)
            # engine fact: $rest is a suffix of the iterated list (it only ever advances by l_tail)
            ctx.assume(subset(IDENTS(rest), IDENTS(whole)))
            ctx.assume(subset(BND(rest), BND(whole)))
            return LL.is_LCons(rest)

        def prologue():
            r = ex["$rest"].t
            it.assign(s.target, VTuple([VARNAME.wrap(LL.l_ident(r)), EXPR.wrap(LL.l_start(r)),
                                        EXPR.wrap(LL.l_stop(r))]))

        def epilogue():
            ex["$rest"] = VLL(LL.l_tail(ex["$rest"].t))

        it.run_cut_loop(s, k, spec, guard_fn, prologue, epilogue, lambda: None)


def _lhs_field(fn, wrap):
    return lambda ctx, t: wrap(fn(t))


EXPR.fields.update({
    "name": (e_name, VARNAME),
    "aggregate": (e_aggregate, EXPR),
    "index": (e_index, EXPR),
})
EXPR.classes.update({"Variable": is_variable, "Subscript": is_subscript})
# `stmt.assignee_subscript` is () or the index tuple: truthiness = is a subscript
EXPR.truth = None


class VSubscript(V):
    """Assign.assignee_subscript: () for a plain variable, the index tuple of the lhs otherwise"""

    def __init__(self, lhs):
        self.lhs = lhs
        self.ty = None

    def truth(self, it):
        return is_subscript(self.lhs)


STMT8 = TElem(
    "Stmt8", S8,
    fields={
        "condition": (f_cond, EXPR), "lhs": (f_lhs, EXPR), "rhs": (f_rhs, EXPR),
        "time": (f_time, EXPR), "expression": (f_expression, EXPR),
        "loops": lambda ctx, t: VLL(f_loops(t)),
        "parameters": lambda ctx, t: VList(TList(EXPR), f_npar(t), f_par(t)),
        "kw_parameters": lambda ctx, t: VDict(TDict(VARNAME, EXPR), f_kwdom(t), f_kwval(t)),
        "assignees": lambda ctx, t: VList(TList(VARNAME), f_nasg(t), f_asg(t)),
        "function_id": (f_funcid, VARNAME),
        "time_id": lambda ctx, t: VPy("<time_id>"),
        "component_id": lambda ctx, t: VPy("<component_id>"),
    },
)


def validity(s):
    """input validity of a statement record (established by the constructors)"""
    return [("lhs-is-variable-or-subscript-of-variable",
             Or(is_variable(f_lhs(s)), And(is_subscript(f_lhs(s)), is_variable(e_aggregate(f_lhs(s)))))),
            ("variable-xor-subscript", Not(And(is_variable(f_lhs(s)), is_subscript(f_lhs(s))))),
            ("list-lengths", And(f_npar(s) >= 0, f_nasg(s) >= 0))]


# ==========================================================================
# declared sets: each get_*_variables is proved to return (at least) its spec set
# ==========================================================================

def written_name(s):
    lhs = f_lhs(s)
    return If(is_variable(lhs), e_name(lhs), e_name(e_aggregate(lhs)))


def RD_AssignBase(s):
    """what AssignBase.get_read_variables must cover (property statement: right-hand side and
    subscripts on the left-hand side)"""
    lhs = f_lhs(s)
    return union(vars_(f_rhs(s)), If(is_subscript(lhs), vars_(e_index(lhs)), empty()))


def RD_Cond(s):
    return vars_(f_cond(s))


def RD_Assign(s):
    """rhs, lhs subscripts, guard, and every loop-bound variable that is read from the enclosing scope"""
    return union(RD_AssignBase(s), RD_Cond(s), SCOPE(f_loops(s), empty()))


def m_dep_mapper(ctx, it, args, kw):
    """A-DEP: (Extended)DependencyMapper(include_subscripts=False, include_lookups=False,
    include_calls='descend_args')(e) = the variable nodes of e; `.name` of a node is its name"""
    e = ctx.deref(args[0])
    return VSet(NAMESET, vars_(e.t))


VARNAME.fields["name"] = (lambda t: t, VARNAME)


def _const_of(ctx, v):
    """a Python constant out of an evaluated literal (False / True / a string), or the marker `...` if it is not one"""
    v = ctx.deref(v)
    if isinstance(v, VBool):
        t = z3.simplify(v.t)
        return True if z3.is_true(t) else False if z3.is_false(t) else ...
    if isinstance(v, VPy) and isinstance(v.py, str):
        return v.py
    if isinstance(v, VStr):
        t = z3.simplify(v.t)
        return t.as_string() if z3.is_string_value(t) else ...
    return ...


A_DEP_FLAGS = {"include_subscripts": False, "include_lookups": False, "include_calls": "descend_args"}


def check_mapper_flags(ctx, args, kw, what):
    """A-DEP is stated for (Extended)DependencyMapper(include_subscripts=False, include_lookups=False,
    include_calls='descend_args').  Any other flag, a missing flag (pymbolic's defaults include lookups and subscripts as
    nodes) or a positional argument is outside the assumption: undecided."""
    if args:
        raise Unsupported("%s with positional arguments: outside A-DEP" % what)
    flags = {}
    for k, v in kw.items():
        if k is None:                               # **args of a dict literal
            d = ctx.deref(v)
            if not (isinstance(d, VPy) and isinstance(d.py, dict)):
                raise Unsupported("%s(**%r)" % (what, d))
            flags.update(d.py)
        else:
            flags[k] = v
    got = {k: _const_of(ctx, v) for k, v in flags.items()}
    if got != A_DEP_FLAGS:
        raise Unsupported("%s is built with %s; A-DEP is stated for %s" % (
            what, {k: ("<not a constant>" if v is ... else v) for k, v in sorted(got.items())}, A_DEP_FLAGS))


def m_get_dependency_mapper(ctx, it, args, kw):
    # self.get_dependency_mapper(): the default include_calls='descend_args' (contract MapperFactory below); any argument
    # would select another traversal of calls
    if args or kw:
        raise Unsupported("get_dependency_mapper(%s): only the default traversal of calls is covered by A-DEP"
                          % ", ".join(list(map(str, args)) + sorted(k for k in kw if k)))
    return VFunc("dep_mapper", m_dep_mapper)


class MapperFactory(FunctionContract):
    """StatementBase.get_dependency_mapper / Statement.get_dependency_mapper(include_calls='descend_args'): the mapper is built
    with include_subscripts=False, include_lookups=False and the caller's include_calls, which is what A-DEP is stated for"""
    prop = "C08"
    relpath = LANG

    def __init__(self, qualname, cls):
        self.qualname = qualname
        self.cls = cls

    def params(self, ctx):
        ctx.env["self"] = VObj(TObj("Statement", {}), {})
        ctx.env["include_calls"] = VPy("descend_args")
        ctx.ghost["built"] = z3.BoolVal(False)

    def m_mapper(self, ctx, it, args, kw):
        check_mapper_flags(ctx, args, kw, self.cls)
        ctx.ghost["built"] = z3.BoolVal(True)
        return VPy("<the mapper of A-DEP>")

    calls = property(lambda self: {self.cls: self.m_mapper})

    def ensures(self, st):
        r = st._deref(st.result)
        return [("returns-the-mapper-A-DEP-is-stated-for", z3.BoolVal(isinstance(r, VPy) and r.py == "<the mapper of A-DEP>"))]


def m_get_variables(ctx, it, args, kw):
    e = ctx.deref(args[0])
    return VSet(NAMESET, vars_(e.t))


def m_frozenset(ctx, it, args, kw):
    if not args:
        return VSet(NAMESET, empty())
    v = ctx.deref(args[0])
    if isinstance(v, VSet):
        return v
    if isinstance(v, VList):
        from pyvc.interp import _to_set_term
        return VSet(NAMESET, _to_set_term(ctx, it, v, NAMESET))
    raise Unsupported("frozenset(%r)" % (v,))


class DeclContract(FunctionContract):
    prop = PROP
    relpath = LANG
    super_result = None       # spec of super().get_read_variables() for the class chain under proof

    def __init__(self, qualname, lower_bound, super_lb=None, variant=""):
        self.qualname = qualname
        self.lower_bound = lower_bound
        self.super_lb = super_lb
        self.variant_name = variant
        self.s = z3.Const("self_stmt", S8)

    def params(self, ctx):
        ctx.env["self"] = STMT8.wrap(self.s)
        for f in unfold_ll(f_loops(self.s)):
            ctx.assume(f)

    def requires(self, st):
        return validity(self.s)

    def m_super(self, ctx, it, args, kw):
        # the next get_read_variables in the MRO: enters by its own (proved) lower bound
        r = z3.Const(fresh_name("super_reads"), NameSet)
        if self.super_lb is not None:
            ctx.assume(subset(self.super_lb(self.s), r))
        return VSet(NAMESET, r)

    calls = property(lambda self: {
        "super().get_read_variables": self.m_super,
        "self.get_dependency_mapper": m_get_dependency_mapper,
    })
    names = {"frozenset": VFunc("frozenset", m_frozenset), "get_variables": VFunc("get_variables", m_get_variables),
             "set": VFunc("set", m_frozenset)}

    def nested_get_vars(self, ctx, it, args, kw):
        raise Unsupported("nested get_vars must be executed from its body")

    def list_literal(self, ctx, it, e):
        items = [ctx.deref(it.eval(x)) for x in e.elts]
        t = empty()
        for x in items:
            t = Store(t, x.t, True)
        return VSet(NAMESET, t)      # only used as frozenset([...])

    def ensures(self, st):
        return [("covers-spec", subset(self.lower_bound(self.s), st.result.t))]


class AssignBaseReads(DeclContract):
    """AssignBase.get_read_variables with its nested get_vars(expr) executed from the source"""

    def __init__(self):
        super().__init__("AssignBase.get_read_variables", RD_AssignBase)

    @property
    def nested(self):
        # get_vars is inlined: its body is a single return over `get_deps(<expr>)`; the engine
        # evaluates that body with the *actual* argument binding
        def get_vars(ctx, it, args, kw):
            import ast as pyast
            fn = [n for n in pyast.walk(it.engine.fn) if isinstance(n, pyast.FunctionDef) and n.name == "get_vars"][0]
            if len(fn.body) != 1 or not isinstance(fn.body[0], pyast.Return):
                raise Unsupported("get_vars is no longer a single return")
            saved = dict(ctx.env)
            try:
                ctx.env[fn.args.args[0].arg] = args[0]
                return it.eval(fn.body[0].value)
            finally:
                ctx.env = saved
        return {"get_vars": get_vars}

    def ensures(self, st):
        lhs = f_lhs(self.s)
        return [("covers-rhs-variables", subset(vars_(f_rhs(self.s)), st.result.t)),
                ("covers-lhs-subscript-variables",
                 Implies(is_subscript(lhs), subset(vars_(e_index(lhs)), st.result.t)))]


# ==========================================================================
# the interpreter side: ghost touched sets
# ==========================================================================

def _key(v):
    """the variable name a context key denotes: a name term, or - for a string literal in the interpreter's text - an
    arbitrary fixed name (nothing is known about it, in particular not that the statement declares it)"""
    if isinstance(v, VPy) and isinstance(v.py, str):
        return z3.Const("the_name_%r" % v.py, VarName)
    if hasattr(v, "t"):
        return v.t
    raise Unsupported("context key %r" % (v,))


class _K:
    def __init__(self, t):
        self.t = t


class VContext(V):
    """self.context: every key read / written is recorded in ghost sets"""
    ty = None

    def getitem(self, it, idx, node):
        ctx = it.ctx
        name = _K(_key(ctx.deref(idx)))
        ctx.ghost["touched_r"] = Store(ctx.ghost["touched_r"], name.t, True)
        ctx.ghost["scope_r"] = union(ctx.ghost["scope_r"], minus(single(name.t), ctx.ghost["bound"]))
        return VArr(name.t)

    def contains(self, it, x):
        # `name in context` is a read of that key
        ctx = it.ctx
        x = _K(_key(ctx.deref(x)))
        ctx.ghost["touched_r"] = Store(ctx.ghost["touched_r"], x.t, True)
        ctx.ghost["scope_r"] = union(ctx.ghost["scope_r"], minus(single(x.t), ctx.ghost["bound"]))
        return z3.Bool(fresh_name("key_present"))

    def setitem(self, it, idx, v, node):
        ctx = it.ctx
        name = _K(_key(ctx.deref(idx)))
        ctx.ghost["touched_w"] = Store(ctx.ghost["touched_w"], name.t, True)

    def delitem(self, it, idx, node):
        ctx = it.ctx
        name = _K(_key(ctx.deref(idx)))
        if ctx.choose(2, "del-missing") == 0:
            ctx.raise_("KeyError")
        ctx.ghost["touched_w"] = Store(ctx.ghost["touched_w"], name.t, True)


def _ctx_pop(ctx, it, obj, args, kw):
    """dict.pop(key, default): removes the key if present, never raises with a default"""
    name = _K(_key(ctx.deref(args[0])))
    if len(args) < 2:
        if ctx.choose(2, "pop-missing") == 0:
            ctx.raise_("KeyError")
    ctx.ghost["touched_w"] = Store(ctx.ghost["touched_w"], name.t, True)
    return VPy("<popped>")


VContext.methods = {"pop": _ctx_pop}


class VArr(V):
    """a value fetched from the context under `name`; an item store mutates that variable"""
    ty = None

    def __init__(self, name):
        self.name = name

    def setitem(self, it, idx, v, node):
        ctx = it.ctx
        ctx.ghost["touched_w"] = Store(ctx.ghost["touched_w"], self.name, True)
        if ctx.choose(2, "array-store-raises") == 0:
            ctx.raise_("EvalError")


class VValue(V):
    """the value an expression evaluates to: anything, possibly None (EvaluationMapper.map_variable returns None for a name
    that is neither in the context nor a function); `v is None` is an unconstrained flag of the value"""
    ty = None

    def __init__(self):
        self.none = z3.Bool(fresh_name("value_is_None"))

    def is_none(self):
        return self.none

    def __repr__(self):
        return "VValue"


class ExecContract(FunctionContract):
    prop = PROP
    relpath = EXEC
    exc_hierarchy = {"EvalError": ["Exception"], "UserFunctionError": ["Exception"]}
    declared_reads = None
    declared_writes = None

    def __init__(self, qualname):
        self.qualname = qualname
        self.s = z3.Const("stmt", S8)

    def params(self, ctx):
        ctx.env["self"] = VObj(TObj("NumpyInterpreter", {}), {"context": VContext()})
        ctx.env["stmt"] = STMT8.wrap(self.s)
        for f in unfold_ll(f_loops(self.s)):
            ctx.assume(f)

    def ghosts(self, ctx):
        ctx.ghost["touched_r"] = empty()
        ctx.ghost["touched_w"] = empty()
        ctx.ghost["scope_r"] = empty()        # reads that reach the enclosing scope (name not bound as a counter then)
        ctx.ghost["bound"] = empty()          # loop counters bound at this point of the execution

    def requires(self, st):
        return validity(self.s)

    def m_eval(self, ctx, it, args, kw):
        """A-EVAL: evaluating e looks up (at most) the variables of e; may raise"""
        e = ctx.deref(args[0])
        t = e.t if isinstance(e, VElem) else vars_(e_index(e.lhs)) if isinstance(e, VSubscript) else None
        vs = vars_(e.t) if isinstance(e, VElem) else t
        r = z3.Const(fresh_name("looked_up"), NameSet)
        ctx.assume(subset(r, vs))
        ctx.ghost["touched_r"] = union(ctx.ghost["touched_r"], r)
        ctx.ghost["scope_r"] = union(ctx.ghost["scope_r"], minus(r, ctx.ghost["bound"]))
        if ctx.choose(2, "eval-raises") == 0:
            ctx.raise_("EvalError")
        return VInt(z3.Int(fresh_name("value"))) if getattr(self, "eval_returns_int", False) else VValue()

    calls = property(lambda self: {"self.eval_mapper": self.m_eval})

    # Assign's properties (verified as their own units below)
    attr_exprs = property(lambda self: {
        "stmt.assignee": lambda ctx, it: VARNAME.wrap(written_name(self.s)),
        "stmt.assignee_subscript": lambda ctx, it: VSubscript(f_lhs(self.s)),
        "stmt.expression": lambda ctx, it: EXPR.wrap(self.expression_of(self.s)),
    })

    def expression_of(self, s):
        return f_rhs(s)

    def frame(self, st):
        R, W = self.declared_reads(self.s), self.declared_writes(self.s)
        loops = IDENTS(f_loops(self.s))
        return [("every-variable-read-is-declared-read-or-written-or-a-loop-counter",
                 subset(st.g("touched_r"), union(R, W, loops))),
                ("every-variable-read-from-the-enclosing-scope-is-declared-read-or-written",
                 subset(st.g("scope_r"), union(R, W))),
                ("every-variable-assigned-is-declared-written-or-a-loop-counter",
                 subset(st.g("touched_w"), union(W, loops)))]

    def ensures(self, st):
        return self.frame(st)

    @property
    def raises(self):
        return {"EvalError": self.frame, "UserFunctionError": self.frame, "KeyError": self.frame,
                "AssertionError": self.frame}


class ExecCondition(ExecContract):
    def __init__(self):
        super().__init__("NumpyInterpreter.evaluate_condition")
        self.declared_reads = RD_Cond
        self.declared_writes = lambda s: empty()


class ExecYield(ExecContract):
    def __init__(self):
        super().__init__("NumpyInterpreter.exec_YieldState")
        self.declared_reads = lambda s: union(vars_(f_expression(s)), vars_(f_time(s)))
        self.declared_writes = lambda s: empty()

    def expression_of(self, s):
        return f_expression(s)

    names = {"StateComputed": VFunc("StateComputed", lambda ctx, it, a, k: VPy("<event>"))}

    def type_of_literal(self, node):
        return TList(VARNAME)


class ImplementLoops(ExecContract):
    """nested generator implement_loops(loops): between two yields it only evaluates bounds of
    `loops` and assigns loop identifiers of `loops` (resumption contract, checked at every yield
    and at exhaustion)"""

    eval_returns_int = True

    def __init__(self):
        super().__init__("NumpyInterpreter.exec_Assign.implement_loops")
        self.loops_t = z3.Const("loops", LL)
        self.B0 = z3.Const("counters_bound_by_outer_loops", NameSet)

    def ghosts(self, ctx):
        super().ghosts(ctx)
        ctx.ghost["bound"] = self.B0
        for f in unfold_scope(self.loops_t, self.B0):
            ctx.assume(f)

    def params(self, ctx):
        super().params(ctx)
        ctx.env["loops"] = VLL(self.loops_t)
        for f in unfold_ll(self.loops_t):
            ctx.assume(f)
        ctx.env["implement_loops"] = VFunc("implement_loops", self.m_rec)

    def within(self, st_ghost_r, st_ghost_w, l, scope=None):
        out = [("reads-only-bounds-of-its-loops", subset(st_ghost_r, BND(l))),
               ("writes-only-identifiers-of-its-loops", subset(st_ghost_w, IDENTS(l)))]
        if scope is not None:
            out.append(("reaches-the-enclosing-scope-only-for-bounds-evaluated-before-their-counter-is-bound",
                        subset(scope, SCOPE(l, self.B0))))
        return out

    def m_rec(self, ctx, it, args, kw):
        l = ctx.deref(args[0])
        return VGen(l.t)

    def on_yield(self, ctx, it, v):
        for n, f in self.within(ctx.ghost["touched_r"], ctx.ghost["touched_w"], self.loops_t, ctx.ghost["scope_r"]):
            ctx.oblige(it.oname("at-yield/" + n), f)

    def inv_range(self, s):
        return [n_f for n_f in self.within(s.g("touched_r"), s.g("touched_w"), self.loops_t, s.g("scope_r"))]

    def inv_inner(self, s):
        return [n_f for n_f in self.within(s.g("touched_r"), s.g("touched_w"), self.loops_t, s.g("scope_r"))]

    @property
    def ghost_updates(self):
        def bind(ctx, it):
            ctx.ghost["bound"] = union(self.B0, single(ctx.deref(ctx.env["ident"]).t))
        return {"self.context[ident] = i": bind}

    loops = property(lambda self: {
        0: dict(shape="for i in range(self.eval_mapper(start), self.eval_mapper(stop))", inv=self.inv_range,
                havoc_ghosts=["touched_r", "touched_w", "scope_r", "bound"]),
        1: dict(shape="for _val in implement_loops(loops[1:])", inv=self.inv_inner,
                havoc_ghosts=["touched_r", "touched_w", "scope_r"]),
    })

    def ensures(self, st):
        return self.within(st.g("touched_r"), st.g("touched_w"), self.loops_t, st.g("scope_r"))

    @property
    def raises(self):
        return {"EvalError": lambda st: self.within(st.g("touched_r"), st.g("touched_w"), self.loops_t, st.g("scope_r"))}


class VGen(V):
    """the generator returned by implement_loops(l): each resumption may add bound variables of l
    to the read set and identifiers of l to the write set, or raise from an evaluation"""
    ty = None

    def __init__(self, l):
        self.l = l

    def for_loop(self, it, s, k, spec, ex):
        ctx = it.ctx
        l = self.l

        bound_at_creation = ctx.ghost["bound"]

        def resume():
            r = z3.Const(fresh_name("gen_r"), NameSet)
            w = z3.Const(fresh_name("gen_w"), NameSet)
            sc = z3.Const(fresh_name("gen_scope"), NameSet)
            ctx.assume(subset(r, BND(l)))
            ctx.assume(subset(w, IDENTS(l)))
            ctx.assume(subset(sc, SCOPE(l, bound_at_creation)))
            ctx.ghost["touched_r"] = union(ctx.ghost["touched_r"], r)
            ctx.ghost["touched_w"] = union(ctx.ghost["touched_w"], w)
            ctx.ghost["scope_r"] = union(ctx.ghost["scope_r"], sc)
            if ctx.choose(2, "generator-raises") == 0:
                ctx.raise_("EvalError")

        def guard_fn():
            # the resumption that decides whether there is another value
            resume()
            return z3.Bool(fresh_name("gen_has_next"))

        def prologue():
            # at a yield every counter of l is bound
            ctx.ghost["bound"] = union(bound_at_creation, IDENTS(l))
            it.assign(s.target, NONE)

        def epilogue():
            ctx.ghost["bound"] = bound_at_creation

        it.run_cut_loop(s, k, spec, guard_fn, prologue, epilogue, lambda: None)


class ExecAssign(ExecContract):
    def __init__(self):
        super().__init__("NumpyInterpreter.exec_Assign")
        self.declared_reads = RD_Assign
        self.declared_writes = lambda s: single(written_name(s))

    def params(self, ctx):
        super().params(ctx)
        l = f_loops(self.s)
        # lemma scope-within-bounds (both parts), instantiated at the statement's loops and no outer counters
        ctx.assume(subset(BND(l), union(SCOPE(l, empty()), IDENTS(l))))

    def m_impl(self, ctx, it, args, kw):
        l = ctx.deref(args[0])
        return VGen(l.t)

    nested = property(lambda self: {"implement_loops": self.m_impl})

    def inv(self, s):
        return self.frame(s)

    loops = property(lambda self: {
        0: dict(shape="for _val in implement_loops(stmt.loops)", inv=self.inv,
                havoc_ghosts=["touched_r", "touched_w", "scope_r"]),
        1: dict(shape="for (ident, _, _) in stmt.loops", havoc_ghosts=["touched_r", "touched_w", "scope_r"],
                inv=lambda s: self.frame(s) + [
                    ("remaining-loops-are-loops-of-the-statement",
                     subset(IDENTS(s.loop(1)["$rest"].t), IDENTS(f_loops(self.s))))]),
    })


class ExecAssignNoSpuriousException(ExecAssign):
    """C01: exec_Assign raises nothing but what an expression evaluation raises (in particular no
    KeyError for a loop that has no iterations)"""
    prop = "C01"
    variant_name = "no-spurious-exception"

    @property
    def raises(self):
        return {"EvalError": self.frame}


class ExecCall(ExecContract):
    def __init__(self):
        super().__init__("NumpyInterpreter.exec_AssignFunctionCall")
        self.declared_reads = self.reads
        self.declared_writes = self.writes

    @staticmethod
    def reads(s):
        # spec: variables of every positional and keyword argument
        r = z3.Const("RD_call", NameSet)
        return r

    def requires(self, st):
        s = self.s
        j = z3.Int("j")
        kname = z3.Const("kname", VarName)
        R = z3.Const("RD_call", NameSet)
        W = z3.Const("WR_call", NameSet)
        return validity(s) + [
            ("RD-covers-positional", ForAll([j], Implies(And(0 <= j, j < f_npar(s)),
                                                         subset(vars_(Select(f_par(s), j)), R)))),
            ("RD-covers-keyword", ForAll([kname], Implies(Select(f_kwdom(s), kname),
                                                          subset(vars_(Select(f_kwval(s), kname)), R)))),
            ("WR-is-the-assignees", ForAll([j], Implies(And(0 <= j, j < f_nasg(s)),
                                                        Select(W, Select(f_asg(s), j))))),
        ]

    @staticmethod
    def writes(s):
        return z3.Const("WR_call", NameSet)

    def comp_params(self, ctx, it, e):
        s = self.s
        r = z3.Const(fresh_name("looked_up"), NameSet)
        v = z3.Const("v", VarName)
        w = z3.Function(fresh_name("which"), VarName, IntSort())
        ctx.assume(ForAll([v], Implies(Select(r, v), And(0 <= w(v), w(v) < f_npar(s),
                                                         Select(vars_(Select(f_par(s), w(v))), v)))))
        ctx.ghost["touched_r"] = union(ctx.ghost["touched_r"], r)
        if ctx.choose(2, "eval-raises") == 0:
            ctx.raise_("EvalError")
        return VPy("<values>")

    def comp_kw(self, ctx, it, e):
        s = self.s
        r = z3.Const(fresh_name("looked_up"), NameSet)
        v = z3.Const("v", VarName)
        w = z3.Function(fresh_name("whichkw"), VarName, VarName)
        ctx.assume(ForAll([v], Implies(Select(r, v), And(Select(f_kwdom(s), w(v)),
                                                         Select(vars_(Select(f_kwval(s), w(v))), v)))))
        ctx.ghost["touched_r"] = union(ctx.ghost["touched_r"], r)
        if ctx.choose(2, "eval-raises") == 0:
            ctx.raise_("EvalError")
        return VPy("<kwvalues>")

    comprehensions = property(lambda self: {
        "[self.eval_mapper(expr) for expr in stmt.parameters]": self.comp_params,
        "{name: self.eval_mapper(expr) for name, expr in stmt.kw_parameters.items()}": self.comp_kw,
    })

    def m_func(self, ctx, it, args, kw):
        if ctx.choose(2, "user-function-raises") == 0:
            ctx.raise_("UserFunctionError")
        return VResults()

    def m_functions_lookup(self, ctx, it):
        return VFuncTable(self.m_func)

    attr_exprs = property(lambda self: {"self.eval_mapper.functions": lambda ctx, it: VFuncTable(self.m_func)})

    def m_zip(self, ctx, it, args, kw):
        a = ctx.deref(args[0])
        return VZip(a)

    names = property(lambda self: {"zip": VFunc("zip", self.m_zip)})

    def m_len(self, ctx, it, args, kw):
        v = ctx.deref(args[0])
        if isinstance(v, VResults):
            return VInt(z3.Int(fresh_name("nresults")))
        from pyvc.interp import _b_len
        return _b_len(ctx, it, args, kw)

    calls = property(lambda self: {"self.eval_mapper": self.m_eval, "len": self.m_len})

    loops = property(lambda self: {0: dict(shape="for (assignee, res) in zip(stmt.assignees, results)",
                                           inv=self.frame, havoc_ghosts=["touched_w"])})



class VResults(V):
    ty = None


fn_known = z3.Function("function_is_registered", VarName, BoolSort())


class VFuncTable(V):
    ty = None

    def __init__(self, fn):
        self.fn = fn

    def contains(self, it, x):
        return fn_known(x.t)

    def getitem(self, it, idx, node):
        name = it.ctx.deref(idx)
        if not it.ctx.branch(fn_known(name.t), "function-registered"):
            it.ctx.raise_("KeyError")
        return VFunc("user_function", self.fn)


class VZip(V):
    ty = None

    def __init__(self, names):
        self.names = names

    def for_loop(self, it, s, k, spec, ex):
        L = self.names
        ctx = it.ctx
        ex["$i"] = VInt(0)

        def guard_fn():
            i = ex["$i"].t
            ctx.assume(And(i >= 0, i <= L.n))
            return And(i < L.n, z3.Bool(fresh_name("results_has_next")))

        def prologue():
            it.assign(s.target, VTuple([VARNAME.wrap(Select(L.a, ex["$i"].t)), VPy("<res>")]))

        def epilogue():
            ex["$i"] = VInt(z3.simplify(ex["$i"].t + 1))

        it.run_cut_loop(s, k, spec, guard_fn, prologue, epilogue, lambda: None)


# ==========================================================================
def mro_lemma():
    """the class chains read from the source: which get_read_variables a statement class resolves
    to, and what super() means in each (C3 linearisation computed from the ClassDef bases)"""
    items = []
    expected = {
        "Assign": ["Assign", "Statement", "ConditionalStatementBase", "AssignBase", "StatementBase"],
        "AssignFunctionCall": ["AssignFunctionCall", "AssignmentBase", "Statement", "ConditionalStatementBase",
                               "StatementBase"],
        "YieldState": ["YieldState", "Statement", "ConditionalStatementBase", "StatementBase"],
    }
    for cls, want in expected.items():
        got = [c for c in extract.mro(LANG, cls) if c in want]
        items.append(("mro[%s]" % cls, [], z3.BoolVal(got == want)))
    return [], items


class AssignReads(DeclContract):
    """Assign.get_read_variables: super() plus the variables of every loop bound"""

    def __init__(self):
        super().__init__("Assign.get_read_variables", RD_Assign,
                         super_lb=lambda s: union(RD_Cond(s), RD_AssignBase(s)))

    def params(self, ctx):
        super().params(ctx)
        # lemma scope-within-bounds (unit below): SCOPE(l, B) is a subset of BND(l)
        ctx.assume(subset(SCOPE(f_loops(self.s), empty()), BND(f_loops(self.s))))

    def inv(self, s):
        rest = s.loop(0)["$rest"].t
        return [("covers-super", subset(union(RD_Cond(self.s), RD_AssignBase(self.s)), s.result.t)),
                ("covers-processed-bounds", subset(BND(f_loops(self.s)), union(s.result.t, BND(rest))))]

    loops = property(lambda self: {0: dict(shape="for (_, start, end) in self.loops", inv=self.inv)})


def RD_Call(s):
    return z3.Const("RD_call", NameSet)


class CallReads(DeclContract):
    """AssignFunctionCall.get_read_variables covers the guard and every positional / keyword argument"""

    def __init__(self):
        super().__init__("AssignFunctionCall.get_read_variables", RD_Cond, super_lb=RD_Cond)

    def inv0(self, s):
        j = z3.Int("j")
        i = s.loop(0)["$i"].t
        return [("covers-guard", subset(RD_Cond(self.s), s.result.t)),
                ("covers-processed-positional",
                 ForAll([j], Implies(And(0 <= j, j < i), subset(vars_(Select(f_par(self.s), j)), s.result.t))))]

    def inv1(self, s):
        j = z3.Int("j")
        e = z3.Const("e", Expr)
        return [("covers-guard", subset(RD_Cond(self.s), s.result.t)),
                ("covers-positional",
                 ForAll([j], Implies(And(0 <= j, j < f_npar(self.s)),
                                     subset(vars_(Select(f_par(self.s), j)), s.result.t)))),
                ("covers-processed-keyword",
                 ForAll([e], Implies(Select(s.loop(1)["$proc"].t, e), subset(vars_(e), s.result.t))))]

    loops = property(lambda self: {0: dict(shape="for par in self.parameters", inv=self.inv0),
                                   1: dict(shape="for par in self.kw_parameters.values()", inv=self.inv1)})

    def ensures(self, st):
        j = z3.Int("j")
        kname = z3.Const("kname", VarName)
        s = self.s
        return [("covers-guard", subset(RD_Cond(s), st.result.t)),
                ("covers-positional", ForAll([j], Implies(And(0 <= j, j < f_npar(s)),
                                                          subset(vars_(Select(f_par(s), j)), st.result.t)))),
                ("covers-keyword", ForAll([kname], Implies(Select(f_kwdom(s), kname),
                                                           subset(vars_(Select(f_kwval(s), kname)), st.result.t))))]


class WrittenContract(FunctionContract):
    prop = PROP
    relpath = LANG
    names = {"frozenset": VFunc("frozenset", m_frozenset)}

    def __init__(self, qualname, spec):
        self.qualname = qualname
        self.spec = spec
        self.s = z3.Const("self_stmt", S8)

    def params(self, ctx):
        ctx.env["self"] = STMT8.wrap(self.s)

    def requires(self, st):
        return validity(self.s)

    def list_literal(self, ctx, it, e):
        items = [ctx.deref(it.eval(x)) for x in e.elts]
        t = empty()
        for x in items:
            t = Store(t, x.t, True)
        return VSet(NAMESET, t)

    def ensures(self, st):
        return self.spec(self.s, st.result.t)


class PropContract(FunctionContract):
    """the @property accessors of Assign used by exec_Assign"""
    prop = PROP
    relpath = LANG

    def __init__(self, qualname, post):
        self.qualname = qualname
        self.post = post
        self.s = z3.Const("self_stmt", S8)

    def params(self, ctx):
        ctx.env["self"] = STMT8.wrap(self.s)

    def requires(self, st):
        return validity(self.s)

    def ensures(self, st):
        return self.post(self.s, st.result)


FLAT = z3.Function("flatten", Expr, Expr)     # pymbolic.flatten: may drop variables (0*x -> 0): no axiom about vars


class GetVariables(FunctionContract):
    """dagrt.utils.get_variables(expr): exactly the variables of expr (relative to A-DEP for the pymbolic mapper
    it instantiates); in particular the expression must reach the mapper unchanged"""
    prop = PROP
    relpath = "dagrt/utils.py"
    qualname = "get_variables"

    def __init__(self):
        self.e = z3.Const("expr", Expr)

    def params(self, ctx):
        ctx.env["expr"] = EXPR.wrap(self.e)
        ctx.env["include_function_symbols"] = VBool(False)

    def dict_literal(self, ctx, it, e):
        d = {}
        for k, v in zip(e.keys, e.values):
            kk = _const_of(ctx, it.eval(k)) if k is not None else None
            if not isinstance(kk, str):
                raise Unsupported("mapper arguments with a key that is not a string literal")
            d[kk] = it.eval(v)
        return VPy(d)

    def m_mapper(self, ctx, it, args, kw):
        check_mapper_flags(ctx, args, kw, "ExtendedDependencyMapper")
        return VFunc("dep_mapper", m_dep_mapper)

    calls = property(lambda self: {"ExtendedDependencyMapper": self.m_mapper})
    names = {"frozenset": VFunc("frozenset", m_frozenset),
             "flatten": VFunc("flatten", lambda ctx, it, a, k: EXPR.wrap(FLAT(ctx.deref(a[0]).t)))}

    def ensures(self, st):
        return [("every-variable-of-the-expression-is-reported", subset(vars_(self.e), st.result.t)),
                ("nothing-else-is-reported", subset(st.result.t, vars_(self.e)))]


class EvalMapVariable(ExecContract):
    """EvaluationMapper.map_variable(expr): looks up (only) expr.name in the context"""
    relpath = "dagrt/expression.py"

    def __init__(self):
        ExecContract.__init__(self, "EvaluationMapper.map_variable")
        self.v = z3.Const("variable_name", VarName)
        self.declared_reads = lambda s: single(self.v)
        self.declared_writes = lambda s: empty()

    def params(self, ctx):
        ctx.env["self"] = VObj(TObj("EvaluationMapper", {}), {"context": VContext(), "functions": VFuncTable(None)})
        ctx.env["expr"] = VObj(TObj("Variable", {}), {"name": VARNAME.wrap(self.v)})

    raises = {}


class EvalGenericCall(ExecContract):
    """EvaluationMapper.map_generic_call: the function is looked up in `functions` (never in the context);
    the context is read only through the evaluation of the arguments"""
    relpath = "dagrt/expression.py"

    def __init__(self):
        ExecContract.__init__(self, "EvaluationMapper.map_generic_call")
        self.fn = z3.Const("function_name", VarName)
        self.args_vars = z3.Const("variables_of_all_arguments", NameSet)
        self.declared_reads = lambda s: self.args_vars
        self.declared_writes = lambda s: empty()

    def params(self, ctx):
        ctx.env["self"] = VObj(TObj("EvaluationMapper", {}), {"context": VContext(), "functions": VFuncTable(self.m_user)})
        ctx.env["function_name"] = VARNAME.wrap(self.fn)
        ctx.env["parameters"] = VPy("<parameters>")
        ctx.env["kw_parameters"] = VPy("<kw_parameters>")

    def m_user(self, ctx, it, args, kw):
        if ctx.choose(2, "user-function-raises") == 0:
            ctx.raise_("UserFunctionError")
        return VPy("<result>")

    def m_args(self, ctx, it, e):
        # self.rec(param) for every argument: A-EVAL on each
        r = z3.Const(fresh_name("looked_up"), NameSet)
        ctx.assume(subset(r, self.args_vars))
        ctx.ghost["touched_r"] = union(ctx.ghost["touched_r"], r)
        ctx.ghost["scope_r"] = union(ctx.ghost["scope_r"], r)
        if ctx.choose(2, "eval-raises") == 0:
            ctx.raise_("EvalError")
        return VPy("<evaluated arguments>")

    comprehensions = property(lambda self: {
        "(self.rec(param) for param in parameters)": self.m_args,
        "{param_id: self.rec(param) for param_id, param in kw_parameters.items()}": self.m_args})

    def m_map_variable(self, ctx, it, args, kw):
        """self.map_variable(Variable(n)) by its contract above: reads n in the context"""
        v = ctx.deref(args[0])
        n = v.fields["name"].t
        ctx.ghost["touched_r"] = Store(ctx.ghost["touched_r"], n, True)
        ctx.ghost["scope_r"] = Store(ctx.ghost["scope_r"], n, True)
        return VFunc("maybe_function", self.m_user)

    calls = property(lambda self: {"self.map_variable": self.m_map_variable})
    names = property(lambda self: {
        "tuple": VFunc("tuple", lambda ctx, it, a, k: a[0]),
        "str": VFunc("str", lambda ctx, it, a, k: VPy("<str>")),
        "Variable": VFunc("Variable", lambda ctx, it, a, k: VObj(TObj("Variable", {}), {"name": a[0]}))})

    def binop_hook(self, ctx, it, op, a, b):
        import ast as pyast
        if op is pyast.Add and isinstance(a, VPy) and isinstance(b, VPy):
            return VPy("<message>")
        return None

    @property
    def raises(self):
        return {"EvalError": self.frame, "UserFunctionError": self.frame, "ValueError": self.frame,
                "KeyError": self.frame}


def scope_lemma():
    """SCOPE(l, B) is a subset of BND(l): induction on l (step proved here for all B)"""
    i = z3.Const("i", VarName)
    a, b = z3.Consts("a b", Expr)
    t = z3.Const("t", LL)
    B = z3.Const("B", NameSet)
    B2 = z3.Const("B2", NameSet)
    l = LL.LCons(i, a, b, t)
    return [], [("scope-within-bounds/base", unfold_scope(LL.LNil, B) + unfold_ll(LL.LNil), subset(SCOPE(LL.LNil, B), BND(LL.LNil))),
                ("scope-within-bounds/step",
                 unfold_scope(l, B) + unfold_ll(l) + [ForAll([B2], subset(SCOPE(t, B2), BND(t)))],
                 subset(SCOPE(l, B), BND(l))),
                # every bound variable is read from the scope or is a counter (already bound, or of these loops)
                ("bounds-are-scope-reads-or-counters/base", unfold_scope(LL.LNil, B) + unfold_ll(LL.LNil),
                 subset(BND(LL.LNil), union(SCOPE(LL.LNil, B), B, IDENTS(LL.LNil)))),
                ("bounds-are-scope-reads-or-counters/step",
                 unfold_scope(l, B) + unfold_ll(l) + [ForAll([B2], subset(BND(t), union(SCOPE(t, B2), B2, IDENTS(t))))],
                 subset(BND(l), union(SCOPE(l, B), B, IDENTS(l))))]


class MapForeign(FunctionContract):
    """ExtendedDependencyMapper.map_foreign(expr): dagrt's one addition to pymbolic's DependencyMapper (A-DEP).  None and
    strings have no dependencies; everything else is what the base class says."""
    prop = PROP
    relpath = "dagrt/expression.py"
    qualname = "ExtendedDependencyMapper.map_foreign"

    def __init__(self, kind):
        self.kind = kind
        self.variant_name = kind

    def params(self, ctx):
        ctx.env["self"] = VObj(TObj("Mapper", {}), {})
        ctx.env["expr"] = {"None": NONE, "str": VStr(z3.String("expr_text")), "other": VPy("<foreign value>")}[self.kind]

    def isinstance_hook(self, ctx, it, obj, names):
        o = ctx.deref(obj)
        if names == ["str"]:
            return VBool(z3.BoolVal(isinstance(o, VStr)))
        return None

    def m_super(self, ctx, it, args, kw):
        a = ctx.deref(args[0])
        if len(args) != 1 or kw or not (isinstance(a, VPy) and a.py == "<foreign value>"):
            raise Unsupported("super().map_foreign(%r)" % (args,))
        return VPy("<DependencyMapper.map_foreign(expr)>")

    calls = property(lambda self: {"super().map_foreign": self.m_super})
    names = {"frozenset": VFunc("frozenset", m_frozenset)}

    def ensures(self, st):
        r = st._deref(st.result)
        if self.kind == "other":
            return [("everything-but-None-and-strings-is-left-to-the-base-class",
                     z3.BoolVal(isinstance(r, VPy) and r.py == "<DependencyMapper.map_foreign(expr)>"))]
        if not isinstance(r, VSet):
            return [("returns-a-set", z3.BoolVal(False))]
        return [("None-and-strings-have-no-dependencies", r.t == empty())]


def dependency_mapper_units():
    """how the mapper behind every statement's read set is built (shared with C07, whose passes test and seed from read sets)"""
    from pyvc.contracts import ClassShapeUnit
    return [
        ClassShapeUnit("dagrt/expression.py", "ExtendedDependencyMapper", {"map_foreign"}, ["DependencyMapper"], "A-DEP"),
        FunctionUnit(MapperFactory("StatementBase.get_dependency_mapper", "DependencyMapper")),
        FunctionUnit(MapperFactory("Statement.get_dependency_mapper", "ExtendedDependencyMapper")),
    ]


def units():
    from pyvc.contracts import ClassShapeUnit
    us = dependency_mapper_units() + [
        FunctionUnit(MapForeign("None")), FunctionUnit(MapForeign("str")), FunctionUnit(MapForeign("other")),
        ClassShapeUnit("dagrt/expression.py", "EvaluationMapper",
                       {"__init__", "map_variable", "map_generic_call", "map_call", "map_call_with_kwargs"},
                       ["EvaluationMapperBase"], "A-EVAL"),
        FunctionUnit(DeclContract("StatementBase.get_read_variables", lambda s: empty())),
        FunctionUnit(AssignBaseReads()),
        # ConditionalStatementBase.get_read_variables: super() | vars(condition); proved for any super()
        FunctionUnit(DeclContract("ConditionalStatementBase.get_read_variables",
                                  lambda s: union(RD_Cond(s), RD_AssignBase(s)), super_lb=RD_AssignBase,
                                  variant="as-Assign")),
        FunctionUnit(DeclContract("ConditionalStatementBase.get_read_variables", RD_Cond, variant="generic")),
        FunctionUnit(DeclContract("YieldState.get_read_variables",
                                  lambda s: union(RD_Cond(s), vars_(f_expression(s)), vars_(f_time(s))),
                                  super_lb=RD_Cond)),
        FunctionUnit(CallReads()),
        FunctionUnit(WrittenContract("AssignBase.get_written_variables",
                                     lambda s, r: [("is-the-assigned-variable", Select(r, written_name(s)))])),
        FunctionUnit(WrittenContract(
            "AssignFunctionCall.get_written_variables",
            lambda s, r: [("covers-every-assignee",
                           ForAll([z3.Int("j")], Implies(And(0 <= z3.Int("j"), z3.Int("j") < f_nasg(s)),
                                                         Select(r, Select(f_asg(s), z3.Int("j"))))))])),
        FunctionUnit(PropContract("Assign.assignee", lambda s, r: [("name-of-the-assigned-variable",
                                                                  r.t == written_name(s))])),
        FunctionUnit(PropContract("Assign.expression", lambda s, r: [("is-rhs", r.t == f_rhs(s))])),
        FunctionUnit(ExecCondition()),
        FunctionUnit(ExecYield()),
        FunctionUnit(ImplementLoops()),
        FunctionUnit(ExecAssign()),
        FunctionUnit(ExecCall()),
        LemmaUnit("lemma:class-chains", mro_lemma),
        LemmaUnit("lemma:scope-within-bounds", scope_lemma),
        FunctionUnit(GetVariables()), FunctionUnit(EvalMapVariable()), FunctionUnit(EvalGenericCall()),
    ]
    # which get_read_variables does an Assign resolve to?  (read from the source's class hierarchy)
    cls = extract.resolve_method(LANG, "Assign", "get_read_variables")
    if cls == "Assign":
        us.append(FunctionUnit(AssignReads()))
    else:
        s = z3.Const("self_stmt", S8)
        us.append(LemmaUnit("lemma:Assign-declared-reads(resolves to %s)" % cls, lambda: ([], [
            ("covers-rhs-lhs-subscripts-guard-and-loop-bounds",
             [f for _, f in validity(s)] + unfold_ll(f_loops(s)),
             subset(RD_Assign(s), union(RD_Cond(s), RD_AssignBase(s))))])))
    # the identity clause (sets unchanged by map_expressions(identity)) rests on the map_expressions contracts
    from . import c16
    us += c16.map_expressions_units(identity=True)
    return us


def declared_side_units():
    """the declared read / write sets only (what A-FUSE's renaming and the builder's dependency tracking consult);
    without the interpreter side and without the identity-mapper chain"""
    out = []
    for u in units():
        c = getattr(u, "contract", None)
        if isinstance(c, ExecContract) or getattr(c, "identity", False):
            continue
        out.append(u)
    return out


LEVEL = "proof"
BOUNDED = {"quick": {"timeout_s": 60}, "thorough": {"timeout_s": 600}}
TRUSTED_BASE = [
    "A-DEP: (Extended)DependencyMapper(include_subscripts=False, include_lookups=False, include_calls='descend_args')(e) and dagrt.utils.get_variables(e) return the variable names occurring in e (vars(e))",
    "A-EVAL: EvaluationMapper(e) looks up at most vars(e) in the context (through map_variable), may raise, and does not store",
    "super() resolution follows the C3 linearisation computed from the ClassDef bases in language.py (lemma class-chains checks the three chains)",
    "generator resumption contract of implement_loops is checked at every yield and at exhaustion (sound for frame properties: all effects of generator code happen between yields)",
]
ASSUMPTIONS = [
    "statement records are valid: lhs is a Variable or a Subscript of a Variable",
    "an item store `context[a][i] = v` mutates (only) the variable a; aliasing of array values between variables is not modelled",
    "user functions are arbitrary callees (may raise); they do not touch the context",
    "the identity-map clause (sets unchanged by map_expressions(identity)) rests on the map_expressions contracts of Assign, YieldState and AssignFunctionCall (shared with C16, included in this check) and the identity lemma",
    "exec_AssignImplicit raises NotImplementedError in the interpreter: nothing to cover",
]
EXPLANATION = ("Declared side: every get_read_variables / get_written_variables on the class chains of Assign, AssignFunctionCall and "
               "YieldState is executed symbolically (super() by contract along the MRO read from the source) and proved to cover the "
               "right-hand side, the guard, subscripts on the left-hand side, loop bounds, call arguments, yielded value and time. "
               "Interpreter side: evaluate_condition, exec_Assign (incl. the nested generator implement_loops), exec_AssignFunctionCall, "
               "exec_YieldState are executed with a recording context; on every exit, normal or exceptional, the ghost read set is "
               "proved to be inside declared-read + declared-written + loop counters and the ghost write set inside declared-written + "
               "loop counters.")
