import Mathlib.Data.List.Perm.Basic
import Mathlib.Data.List.Pairwise
namespace LPerm
variable {ι σ : Type*}
/-- run a schedule left to right -/
def run (f : ι → σ → σ) (l : List ι) (s : σ) : σ := l.foldl (fun s i => f i s) s
@[simp] theorem run_nil (f : ι → σ → σ) (s : σ) : run f [] s = s := rfl
@[simp] theorem run_cons (f : ι → σ → σ) (a : ι) (t : List ι) (s : σ) :
    run f (a :: t) s = run f t (f a s) := rfl

theorem run_move_front (f : ι → σ → σ) (a : ι) (q : List ι) :
    ∀ (p : List ι), (∀ b ∈ p, ∀ s, f a (f b s) = f b (f a s)) →
      ∀ s, run f (p ++ a :: q) s = run f (a :: (p ++ q)) s := by
  intro p
  induction p with
  | nil => intro _ s; rfl
  | cons b p ih =>
    intro h s
    have hb := h b (by simp)
    have ih' := ih (fun c hc => h c (by simp [hc]))
    simp only [List.cons_append, run_cons]
    rw [ih' (f b s)]
    simp only [run_cons]
    rw [hb s]

/-- `prec i j`: i must run before j (a dependency path from j to i).  Both lists are
linear extensions (`Pairwise (¬ prec y x)`), every conflicting pair is ordered by
`prec` (theorem T of C02), non-conflicting steps commute (C08). -/
theorem run_eq_of_linear_extensions
    (f : ι → σ → σ) (conflict : ι → ι → Prop) (prec : ι → ι → Prop)
    (hcomm : ∀ i j, ¬ conflict i j → ∀ s, f i (f j s) = f j (f i s))
    (hord : ∀ i j, conflict i j → prec i j ∨ prec j i) :
    ∀ (l₁ l₂ : List ι), l₁.Perm l₂ →
      l₁.Pairwise (fun x y => ¬ prec y x) →
      l₂.Pairwise (fun x y => ¬ prec y x) →
      ∀ s, run f l₁ s = run f l₂ s := by
  intro l₁
  induction l₁ with
  | nil =>
    intro l₂ hp _ _ s
    have : l₂ = [] := by simpa using hp.symm.eq_nil
    subst this; rfl
  | cons a t ih =>
    intro l₂ hp h₁ h₂ s
    have ha : a ∈ l₂ := hp.subset (by simp)
    obtain ⟨p, q, rfl⟩ := List.append_of_mem ha
    have h₁' := List.pairwise_cons.mp h₁
    have h₂' := List.pairwise_append.mp h₂
    have hcom : ∀ b ∈ p, ∀ s, f a (f b s) = f b (f a s) := by
      intro b hb s
      by_cases hab : b = a
      · subst hab; rfl
      · apply hcomm
        intro hc
        have hbt : b ∈ t := by
          have : b ∈ a :: t := hp.symm.subset (by simp [hb])
          rcases List.mem_cons.mp this with h | h
          · exact absurd h hab
          · exact h
        rcases hord a b hc with h | h
        · exact h₂'.2.2 b hb a (by simp) h
        · exact h₁'.1 b hbt h
    rw [run_move_front f a q p hcom s]
    simp only [run_cons]
    apply ih (p ++ q)
    · exact (List.perm_cons a).mp (hp.trans List.perm_middle)
    · exact h₁'.2
    · exact h₂.sublist (by
        apply List.Sublist.append (List.Sublist.refl p)
        exact List.sublist_cons_self a q)
end LPerm
