"""C09 — inferred kinds agree with the values computed at run time (mixed).

Proved (functions read from /repo/dagrt/data.py on every run): every KindInferenceMapper.map_*
returns a kind (never None) on every normal exit, given that `rec` does (induction hypothesis);
SymbolKindTable.set stores a kind when given one (C14's contract).  Value-vs-kind agreement and
the declared result kinds of the built-ins are bounded only.
"""
import ast as pyast
import z3
from z3 import And, Or, Not, Implies, ForAll, Select, If

from pyvc.values import *  # noqa
from pyvc.contracts import FunctionContract, FunctionUnit, LemmaUnit
from .kinds import Kind, Outcome, KIND, KIND_CLASSES, Ident
from .c08 import Expr, EXPR

PROP = "C09"
REL = "dagrt/data.py"

KINDOF = z3.Function("inferred_kind_of_subexpression", Expr, Kind)    # what self.rec returns when it returns


class KimContract(FunctionContract):
    prop = PROP
    relpath = REL
    exc_hierarchy = {"UnableToInferKind": ["Exception"]}

    def __init__(self, method, with_check=None):
        self.qualname = "KindInferenceMapper." + method
        self.check = z3.Bool("self_check")
        self.e = z3.Const("expr", Expr)
        self.uu = None

    def params(self, ctx):
        ctx.env["self"] = VObj(TObj("KindInferenceMapper", {}), {
            "check": VBool(self.check),
            "global_table": VTable(), "local_table": VTable()})
        ctx.env["expr"] = VExprNode(self.e)
        ctx.env["children"] = VChildren()

    def m_rec(self, ctx, it, args, kw):
        """induction hypothesis: rec returns a kind (not None) or raises UnableToInferKind (or a check error)"""
        how = ctx.choose(3, "rec-outcome")
        if how == 0:
            ctx.raise_("UnableToInferKind")
        if how == 1:
            ctx.raise_("ValueError")
        k = z3.Const(fresh_name("child_kind"), Kind)
        ctx.assume(Not(Kind.is_NoneK(k)))
        return KIND.wrap(k)

    def m_unify(self, ctx, it, args, kw):
        """C14: unify(a, b) is None only if both are None; may raise"""
        a, b = ctx.deref(args[0]), ctx.deref(args[1])
        at = Kind.NoneK if isinstance(a, VNone) else a.t
        bt = Kind.NoneK if isinstance(b, VNone) else b.t
        if ctx.choose(2, "unify-raises") == 0:
            ctx.raise_("ValueError")
        r = z3.Const(fresh_name("joined"), Kind)
        ctx.assume(Kind.is_NoneK(r) == And(Kind.is_NoneK(at), Kind.is_NoneK(bt)))
        return KIND.wrap(r)

    calls = property(lambda self: {"self.rec": self.m_rec,
                                   "self.map_product_like": self.m_product_like,
                                   "self.map_generic_call": self.m_generic_call})

    def m_product_like(self, ctx, it, args, kw):
        # map_product_like's own contract (unit below): a kind, or an exception
        if ctx.choose(2, "product-like-raises") == 0:
            ctx.raise_("UnableToInferKind")
        k = z3.Const(fresh_name("product_kind"), Kind)
        ctx.assume(Not(Kind.is_NoneK(k)))
        return KIND.wrap(k)

    def m_generic_call(self, ctx, it, args, kw):
        if ctx.choose(2, "call-raises") == 0:
            ctx.raise_("UnableToInferKind")
        k = z3.Const(fresh_name("call_kind"), Kind)
        ctx.assume(Not(Kind.is_NoneK(k)))     # A-REG: get_result_kinds returns SymbolKind instances
        return KIND.wrap(k)

    names = property(lambda self: dict(
        KIND_CLASSES, unify=VFunc("unify", self.m_unify),
        type=VFunc("type", lambda ctx, it, a, k: VPy("<type>")),
        complex=VClass("complex"), dict=VFunc("dict", lambda ctx, it, a, k: VArgs()),
        UnableToInferKind=VClass("UnableToInferKind"),
        enumerate=VFunc("enumerate", lambda ctx, it, a, k: VPy("<enumerate>"))))

    def isinstance_hook(self, ctx, it, obj, names):
        if isinstance(obj, VExprNode):
            return VBool(z3.Bool(fresh_name("isinstance")))
        return None

    def getattr_hook(self, ctx, it, obj, name):
        o = ctx.deref(obj)
        if isinstance(o, VExprNode):
            if name == "children":
                return VChildren()
            return VExprNode(z3.Const(fresh_name("sub_" + name), Expr))
        if isinstance(o, VPy):
            return VPy("<attr>")
        return None

    def binop_hook(self, ctx, it, op, a, b):
        if op is pyast.Mod and isinstance(a, VPy):
            return VPy("<message>")
        return None

    def equal_hook(self, ctx, it, a, b, identity):
        if isinstance(a, VExc) and isinstance(b, VNone) or isinstance(b, VExc) and isinstance(a, VNone):
            return z3.BoolVal(False)
        return None

    any_raise_ok = True      # inference may fail; the clause is about what a normal return delivers

    def ensures(self, st):
        r = st.result
        return [("returns-a-kind-never-None", z3.BoolVal(False) if isinstance(r, VNone) else
                 (Not(Kind.is_NoneK(r.t)) if isinstance(r, VElem) else z3.BoolVal(False)))]


class VExprNode(V):
    ty = None

    def __init__(self, t):
        self.t = t


class VArgs(V):
    """dict(enumerate(expr.parameters)) and its .update(...)"""
    ty = None


VArgs.methods = {"update": lambda ctx, it, obj, args, kw: NONE}


class VTable(V):
    """a kind table: lookups return a kind (tables only ever hold kinds: SymbolKindTable.set, C14) or raise KeyError"""
    ty = None

    def getitem(self, it, idx, node):
        ctx = it.ctx
        if ctx.choose(2, "name-unknown") == 0:
            ctx.raise_("KeyError")
        k = z3.Const(fresh_name("table_kind"), Kind)
        ctx.assume(Not(Kind.is_NoneK(k)))
        return KIND.wrap(k)


class VChildren(V):
    """expr.children / the tuple handed to map_product_like: at least one child"""
    ty = None

    def for_loop(self, it, s, k, spec, ex):
        ctx = it.ctx
        ex["$j"] = VInt(0)
        n = z3.Int(fresh_name("n_children"))
        ctx.assume(n >= 1)
        ex["$n"] = VInt(n)

        def guard_fn():
            j = ex["$j"].t
            ctx.assume(And(0 <= j, j <= n))
            return j < n

        it.run_cut_loop(s, k, spec, guard_fn,
                        lambda: it.assign(s.target, VExprNode(z3.Const(fresh_name("child"), Expr))),
                        lambda: ex.__setitem__("$j", VInt(z3.simplify(ex["$j"].t + 1))), lambda: None)


def _kind_or_none(v):
    return Kind.NoneK if isinstance(v, VNone) else v.t


class MapSum(KimContract):
    def __init__(self):
        super().__init__("map_sum")

    def inv(self, s):
        j = s.loop(0)["$j"].t
        kind = s.kind
        le = s.last_exc
        return [("kind-or-a-recorded-failure-once-a-child-was-seen",
                 Implies(j >= 1, Or(z3.BoolVal(not isinstance(kind, VNone)) if isinstance(kind, VNone) else Not(Kind.is_NoneK(kind.t)),
                                    z3.BoolVal(isinstance(le, VExc)))))]

    def havoc_var(self, ctx, it, name, v):
        if name == "kind":
            return KIND.wrap(z3.Const(fresh_name("kind"), Kind))
        if name == "last_exc":
            return VMaybeExc(z3.Bool(fresh_name("have_exc")))
        return None

    loops = property(lambda self: {0: dict(shape="for ch in expr.children", inv=self.inv2)})

    def inv2(self, s):
        j = s.loop(0)["$j"].t
        kind, le = s.kind, s.last_exc
        kind_set = z3.BoolVal(False) if isinstance(kind, VNone) else Not(Kind.is_NoneK(kind.t))
        exc_set = le.present if isinstance(le, VMaybeExc) else z3.BoolVal(isinstance(le, VExc))
        return [("a-kind-or-a-recorded-failure-once-a-child-was-seen", Implies(j >= 1, Or(kind_set, exc_set)))]


class VMaybeExc(VExc):
    """last_exc: None or a caught UnableToInferKind"""
    ty = None

    def __init__(self, present):
        VExc.__init__(self, "UnableToInferKind")
        self.present = present

    def is_none(self):
        return Not(self.present)


class MapProductLike(KimContract):
    def __init__(self):
        super().__init__("map_product_like")

    def havoc_var(self, ctx, it, name, v):
        if name == "kind":
            return KIND.wrap(z3.Const(fresh_name("kind"), Kind))
        return None

    def inv(self, s):
        j = s.loop(0)["$j"].t
        kind = s.kind
        kind_set = z3.BoolVal(False) if isinstance(kind, VNone) else Not(Kind.is_NoneK(kind.t))
        return [("a-kind-once-a-child-was-seen", Implies(j >= 1, kind_set))]

    loops = property(lambda self: {0: dict(shape="for ch in children", inv=self.inv)})


def units():
    simple = ["map_constant", "map_variable", "map_product", "map_quotient", "map_power", "map_comparison",
              "map_max", "map_subscript", "map_logical_not", "map_call", "map_call_with_kwargs"]
    from . import c14, finder, builtins
    from pyvc.contracts import FilteredUnit
    # of C14's table units only what the fixed point needs (the lattice laws of unify are C14's own subject)
    # the property needs the table to be a fixed point of every statement (a kind refined late must reach all its
    # readers): the table's `set` and the driver loop are under the contracts of C14
    return [FunctionUnit(KimContract(m)) for m in simple] + [FunctionUnit(MapSum()), FunctionUnit(MapProductLike())] \
        + [FilteredUnit(u, lambda name: "/lemma/" not in name and "/probe[" not in name) for u in c14.table_units()] \
        + finder.units() + builtins.units() + __import__('contracts.c09call', fromlist=['units']).units() + __import__('contracts.c09rhs', fromlist=['units']).units() + __import__('contracts.c09infer', fromlist=['units']).units() + __import__('contracts.c09sem', fromlist=['units']).units()


def concretize(obligation_name, model_text):
    from . import builtins
    return builtins.concretize(obligation_name, model_text)


LEVEL = "other"
BOUNDED = {"quick": {"timeout_s": 90}, "thorough": {"timeout_s": 900}}
TRUSTED_BASE = [
    "induction over the expression: `self.rec` returns a kind (not None) or raises - the hypothesis under which every map_* is proved to return a kind",
    "A-REG: Function.get_result_kinds returns SymbolKind instances; tables only ever hold kinds (SymbolKindTable.set, C14)",
    "unify(a, b) is None only if both are None (read off its outcome function, C14)",
]
ASSUMPTIONS = [
    "MIXED (category other): per map_* method the clause 'every inferred expression kind is a kind, never None' is proved, and (contracts/c09sem.py) WHICH kind: "
    "the arithmetic rules return the join (real unify) of the kinds of ALL operands (map_product_like, map_sum with / without check, run with 1-3 operands; map_product / "
    "map_quotient / map_power delegate all operands, for a power base AND exponent), comparisons / logical rules a flag, min / max a real scalar, a subscript the scalar of the "
    "aggregate's element type, a constant a complex scalar exactly for a complex constant; that the VALUE of an arithmetic operation has a kind below that join is A-NUMPY (assumed; findings D13, D37); "
    "that every assigned variable gets a table entry is NOT proved (finding D23 shows it is false for subscript-only assignments); "
    "for SymbolKindFinder.__call__ what is proved is that the returned table is a common fixed point of all statement steps (see C14)",
    "value-vs-kind agreement of programs is decided only by the bounded stand-in (random builder programs run on the real interpreter)",
    "declared result kinds of the built-ins: each get_result_kinds is proved to return upper bounds of IMPL_f(argument kinds) for all determined "
    "argument kinds in the implementation's domain; IMPL_f (contracts/builtins.py) is an ASSUMED contract on dagrt/builtins_python.py + NumPy's dtype "
    "rules (complex iff an operand is complex; norms, sizes and singular values are real), written down by hand and exercised by the bounded "
    "stand-in on a value catalogue; isnan is covered for scalars only (array argument: finding D12)",
]
EXPLANATION = ("MIXED. Proved: each KindInferenceMapper.map_* (constant, variable, sum, product-like, product, quotient, power, comparison, "
               "logical ops, min/max, subscript, calls) returns a SymbolKind and never None on every normal exit, given the induction hypothesis "
               "on `rec`. Bounded (labelled, never counted as proved): (i) every built-in of builtins_python on a catalogue of scalar / array / "
               "complex / user-type arguments against get_result_kinds; (ii) random builder programs: after each statement of the real "
               "interpreter the stored value's kind is below the inferred kind, never complex where real is claimed.")
