"""C01 / C11 — the frame of a generated phase function (dagrt/codegen/python.py): emit_def_begin, emit_def_end, finish_emit.

emit_def_begin(name)  starts a fresh function emitter phase_<name>(self) and clears the name manager's per-phase locals
                      (temporaries of one phase function are Python locals of that function only)
emit_def_end()        adds the finished function to the class (once) and forgets the emitter
finish_emit(dag)      emits the constructor, set_up, run and run_single_step (each once)
"""
import z3
from pyvc.values import *  # noqa
from pyvc.contracts import FunctionContract, FunctionUnit

REL = "dagrt/codegen/python.py"
B = z3.BoolVal


class VNM2(V):
    ty = None

    def __init__(self):
        self.cleared = 0


class VCE(V):
    ty = None

    def __init__(self):
        self.got = []


class DefBegin(FunctionContract):
    prop = "C01"
    relpath = REL
    qualname = "CodeGenerator.emit_def_begin"

    def params(self, ctx):
        self.nm = VNM2()
        self.made = []
        ctx.env["self"] = ctx.alloc(VObj(TObj("CodeGenerator", {}), {"_name_manager": self.nm, "_emitter": VPy("<old emitter>")}))
        ctx.env["name"] = VPy("NAME")

    def m_fe(self, ctx, it, args, kw):
        a = [ctx.deref(x) for x in args]
        v = VPy(("emitter", getattr(a[0], "py", "?"), tuple(getattr(ctx.deref(x), "py", "?") for x in a[1].items) if isinstance(a[1], VTuple) else "?"))
        self.made.append(v)
        return v

    def getattr_hook(self, ctx, it, obj, name):
        o = ctx.deref(obj)
        if isinstance(o, VNM2) and name == "clear_locals":
            return VFunc(name, lambda ctx, it, a, k: (setattr(o, "cleared", o.cleared + 1), NONE)[1])
        return None

    def binop_hook(self, ctx, it, op_, a, b):
        import ast as pyast
        if op_ is pyast.Add and isinstance(a, VPy) and isinstance(b, VPy):
            return VPy(str(a.py) + str(b.py))
        return None

    names = property(lambda self: {"PythonFunctionEmitter": VFunc("PythonFunctionEmitter", self.m_fe)})

    def ensures(self, st):
        e = st._deref(st._deref(st._env["self"]).fields["_emitter"])
        return [("a-fresh-emitter-for-phase_<name>(self)-is-current",
                 B(len(self.made) == 1 and e is self.made[0] and e.py == ("emitter", "phase_NAME", ("self",)))),
                ("per-phase-local-names-are-forgotten(temporaries-do-not-leak-between-phase-functions)", B(self.nm.cleared == 1))]


class DefEnd(FunctionContract):
    prop = "C01"
    relpath = REL
    qualname = "CodeGenerator.emit_def_end"

    def params(self, ctx):
        self.ce = VCE()
        self.emitted = []
        ctx.env["self"] = ctx.alloc(VObj(TObj("CodeGenerator", {}), {
            "_class_emitter": self.ce, "_emitter": VPy("<emitter of this phase>"),
            "_emit": VFunc("_emit", lambda ctx, it, a, k: (self.emitted.append(getattr(ctx.deref(a[0]), "py", "?")), NONE)[1])}))

    def getattr_hook(self, ctx, it, obj, name):
        o = ctx.deref(obj)
        if isinstance(o, VCE) and name == "incorporate":
            return VFunc(name, lambda ctx, it, a, k: (o.got.append(getattr(ctx.deref(a[0]), "py", "?")), NONE)[1])
        return None

    def del_attr_hook(self, *a):
        return None

    def ensures(self, st):
        o = st._deref(st._env["self"])
        gone = "_emitter" not in o.fields or isinstance(st._deref(o.fields.get("_emitter")), VNone)
        return [("the-phase-function-is-added-to-the-class-exactly-once", B(self.ce.got == ["<emitter of this phase>"])),
                ("only-a-blank-line-is-emitted-after-the-body", B(self.emitted == [""])),
                ("the-emitter-is-forgotten(nothing-can-be-emitted-into-a-finished-function)", B(bool(gone)))]


class FinishEmit(FunctionContract):
    prop = "C01"
    relpath = REL
    qualname = "CodeGenerator.finish_emit"

    def params(self, ctx):
        self.log = []
        ctx.env["self"] = VObj(TObj("CodeGenerator", {}), {})
        ctx.env["dag"] = VPy("dag")

    def rec(self, what):
        return lambda ctx, it, a, k: (self.log.append((what,) + tuple(getattr(ctx.deref(x), "py", "?") for x in a)), NONE)[1]

    calls = property(lambda self: {"self._emit_constructor": self.rec("constructor"), "self._emit_set_up": self.rec("set_up"),
                                   "self._emit_run": self.rec("run"), "self._emit_run_single_step": self.rec("run_single_step")})

    def ensures(self, st):
        return [("constructor-set_up-run-and-run_single_step-are-each-emitted-once",
                 B(sorted(self.log) == sorted([("constructor", "dag"), ("set_up", "dag"), ("run",), ("run_single_step",)])))]


def units():
    return [FunctionUnit(DefBegin()), FunctionUnit(DefEnd()), FunctionUnit(FinishEmit())]
