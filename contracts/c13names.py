"""C13 — the thin methods of the two name managers: each kind of name goes to ITS map, with ITS prefix.

PythonNameManager: __init__ (three maps with the forced prefixes local / self.global_ / self._functions.; <t>, <dt> predefined),
name_global / name_local / name_function (the matching map, the key unchanged), clear_locals (a NEW local map with the
same prefix; the global and the function map are kept).  FortranNameManager: name_global, name_local (prefix lploc_
unless the name is already a dagrt_ name), name_function, name_refcount, make_unique_fortran_name.
"""
import z3
from pyvc.values import *  # noqa
from pyvc.contracts import FunctionContract, FunctionUnit

B = z3.BoolVal


class VMap(V):
    ty = None

    def __init__(self, tag):
        self.tag = tag
        self.asked = []


class NMContract(FunctionContract):
    prop = "C13"

    def __init__(self, relpath, cls, method, want, arg="name", fields=None, extra_arg=None):
        self.relpath = relpath
        self.qualname = cls + "." + method
        self.want = want              # (map field, method of the map, args tuple)
        self.arg = arg
        self.fields = fields or {}
        self.extra_arg = extra_arg

    def params(self, ctx):
        self.maps = {f: VMap(f) for f in ("_local_map", "_global_map", "function_map", "local_map", "global_map")}
        self.log = []
        ctx.env["self"] = ctx.alloc(VObj(TObj("NameManager", {}), dict(self.maps)))
        ctx.env[self.arg] = VPy("<key>")
        if self.extra_arg:
            ctx.env[self.extra_arg[0]] = self.extra_arg[1]

    def getattr_hook(self, ctx, it, obj, name):
        o = ctx.deref(obj)
        if isinstance(o, VMap):
            def call(ctx, it, a, k):
                args = tuple(getattr(ctx.deref(x), "py", "None" if isinstance(ctx.deref(x), VNone) else "?") for x in a)
                kws = tuple(sorted((n, getattr(ctx.deref(v), "py", "None" if isinstance(ctx.deref(v), VNone) else "?")) for n, v in k.items()))
                self.log.append((o.tag, name, args, kws))
                return VPy("<name from %s>" % o.tag)
            return VFunc(name, call)
        if isinstance(o, VPy) and isinstance(o.py, str) and name == "startswith":
            return VFunc(name, lambda ctx, it, a, k: VBool(z3.Bool("key_starts_with_" + str(ctx.deref(a[0]).py))))
        return None

    def binop_hook(self, ctx, it, op_, a, b):
        import ast as pyast
        if op_ is pyast.Add and isinstance(a, VPy) and isinstance(b, VPy):
            return VPy(str(a.py) + str(b.py))
        return None

    def ensures(self, st):
        r = st.result
        alts = self.want if isinstance(self.want, list) else [self.want]
        ok = False
        for w in alts:
            tag, meth, args, kws, cond = (w + ((), None))[:5] if len(w) < 5 else w
            if self.log == [(tag, meth, tuple(args), tuple(kws))] and getattr(r, "py", None) == "<name from %s>" % tag:
                ok = True
        return [("the-key-goes-unchanged-to-the-matching-map-and-its-answer-is-returned", B(ok))]


class ClearLocals(FunctionContract):
    prop = "C13"
    relpath = "dagrt/codegen/python.py"
    qualname = "PythonNameManager.clear_locals"

    def params(self, ctx):
        self.made = []
        ctx.env["self"] = ctx.alloc(VObj(TObj("NameManager", {}), {"_local_map": VPy("<old local map>"),
                                                                    "_global_map": VPy("<global map>"), "function_map": VPy("<function map>")}))

    def m_map(self, ctx, it, args, kw):
        k = {n: getattr(ctx.deref(v), "py", "?") for n, v in kw.items()}
        v = VPy(("new map", tuple(sorted(k.items())), len(args)))
        self.made.append(v)
        return v

    names = property(lambda self: {"KeyToUniqueNameMap": VFunc("KeyToUniqueNameMap", self.m_map)})

    def setattr_hook(self, ctx, it, obj, name, v):
        o = ctx.deref(obj)
        if isinstance(obj, VRef) and isinstance(o, VObj) and name in ("_local_map", "_global_map", "function_map"):
            nf = dict(o.fields)
            nf[name] = v
            ctx.store(obj, VObj(o.ty, nf))
            return True
        return False

    def ensures(self, st):
        o = st._deref(st._env["self"])
        f = {n: st._deref(v) for n, v in o.fields.items()}
        return [("a-new-empty-local-map-with-the-prefix-local", B(len(self.made) == 1 and f.get("_local_map") is self.made[0]
                                                                 and self.made[0].py == ("new map", (("forced_prefix", "local"),), 0))),
                ("global-and-function-names-are-kept", B(getattr(f.get("_global_map"), "py", None) == "<global map>"
                                                         and getattr(f.get("function_map"), "py", None) == "<function map>"))]


class PyInit(FunctionContract):
    prop = "C13"
    relpath = "dagrt/codegen/python.py"
    qualname = "PythonNameManager.__init__"

    def params(self, ctx):
        ctx.env["self"] = ctx.alloc(VObj(TObj("NameManager", {}), {"_local_map": VPy("<unset>"), "_global_map": VPy("<unset>"),
                                                                    "function_map": VPy("<unset>")}))

    def m_map(self, ctx, it, args, kw):
        k = {}
        for n, v in kw.items():
            d = ctx.deref(v)
            k[n] = d.py if isinstance(d, VPy) else "?"
        return VPy(("map", tuple(sorted((n, str(x)) for n, x in k.items())), len(args)))

    def dict_literal(self, ctx, it, e):
        import ast as pyast
        return VPy(pyast.unparse(e).replace('"', "'"))

    names = property(lambda self: {"KeyToUniqueNameMap": VFunc("KeyToUniqueNameMap", self.m_map)})

    def ensures(self, st):
        o = st._deref(st._env["self"])
        f = {n: getattr(st._deref(v), "py", None) for n, v in o.fields.items()}
        return [("three-separate-maps-with-the-prefixes-local-/-self.global_-/-self._functions.-and-<t>-<dt>-predefined",
                 B(f.get("_local_map") == ("map", (("forced_prefix", "local"),), 0)
                   and f.get("_global_map") == ("map", (("forced_prefix", "self.global_"), ("start", "{'<t>': 'self.t', '<dt>': 'self.dt'}")), 0)
                   and f.get("function_map") == ("map", (("forced_prefix", "self._functions."),), 0)))]


class RefCount(FunctionContract):
    """FortranNameManager.name_refcount(name, qualified_with_state): the reference count of a per-step variable is the local
    name of the KEY 'dagrt_refcnt_' + name - a key no user variable can have (user names never start with dagrt_), so a
    count and a variable never share an entry of the local map; the count of a persistent variable is
    [dagrt_state%]dagrt_refcnt_ + the variable's own component name"""
    prop = "C13"
    relpath = "dagrt/codegen/fortran.py"
    qualname = "FortranNameManager.name_refcount"

    def __init__(self, persistent, qualified):
        self.persistent, self.qualified = persistent, qualified
        self.variant_name = "%s,%s" % ("persistent" if persistent else "per-step", "qualified" if qualified else "bare")

    def params(self, ctx):
        self.log = []
        ctx.env["self"] = VObj(TObj("NameManager", {}), {})
        ctx.env["name"] = VPy("<key>")
        ctx.env["qualified_with_state"] = VBool(B(self.qualified))

    def _call(self, which):
        def f(ctx, it, args, kw):
            a = tuple(getattr(ctx.deref(x), "py", "?") for x in args)
            k = tuple(sorted((n, getattr(ctx.deref(v), "py", "None" if isinstance(ctx.deref(v), VNone) else "?")) for n, v in kw.items()))
            self.log.append((which, a, k))
            return VPy("<%s name>" % which)
        return f

    calls = property(lambda self: {"self.name_local": self._call("local"), "self.name_global": self._call("global")})
    def m_is_state(self, ctx, it, args, kw):
        a = ctx.deref(args[0]) if len(args) == 1 and not kw else None
        if not (isinstance(a, VPy) and a.py == "<key>"):
            raise Unsupported("is_state_variable(%r): must be asked of the variable's own name" % (args,))
        return VBool(B(self.persistent))

    names = property(lambda self: {"is_state_variable": VFunc("is_state_variable", self.m_is_state)})

    def binop_hook(self, ctx, it, op_, a, b):
        import ast as pyast
        if op_ is pyast.Add and isinstance(a, VPy) and isinstance(b, VPy):
            return VPy(str(a.py) + str(b.py))
        return None

    def ensures(self, st):
        r = getattr(st._deref(st.result), "py", None)
        if self.persistent:
            want = ("dagrt_state%" if self.qualified else "") + "dagrt_refcnt_<global name>"
            return [("count-of-a-persistent-variable-is-dagrt_refcnt_-plus-its-own-component-name",
                     B(self.log == [("global", ("<key>",), ())] and r == want))]
        return [("count-of-a-per-step-variable-is-the-local-name-of-the-reserved-key-dagrt_refcnt_<name>(no-other-key,-no-prefix-argument)",
                 B(self.log == [("local", ("dagrt_refcnt_<key>",), ())] and r == "<local name>"))]


class FoInit(FunctionContract):
    """FortranNameManager.__init__: ONE name generator, made by _make_fortran_name_generator(), serves the local, the global and
    the function map (locals, functions and generator temporaries live in one Fortran scope; sharing the generator is what
    keeps their identifiers apart); <t>, <dt> are predefined as dagrt_t, dagrt_dt in the global map"""
    prop = "C13"
    relpath = "dagrt/codegen/fortran.py"
    qualname = "FortranNameManager.__init__"

    def params(self, ctx):
        self.gens = []
        ctx.env["self"] = ctx.alloc(VObj(TObj("NameManager", {}), {"name_generator": VPy("<unset>"), "local_map": VPy("<unset>"),
                                                                    "global_map": VPy("<unset>"), "function_map": VPy("<unset>")}))

    def m_gen(self, ctx, it, args, kw):
        if args or kw:
            raise Unsupported("_make_fortran_name_generator(...) with arguments")
        g = VPy(("generator", len(self.gens)))
        self.gens.append(g)
        return g

    def m_map(self, ctx, it, args, kw):
        k = {}
        for n, v in kw.items():
            d = ctx.deref(v)
            k[n] = d.py if isinstance(d, VPy) else "?"
        return VPy(("map", tuple(sorted((n, str(x)) for n, x in k.items())), len(args)))

    def dict_literal(self, ctx, it, e):
        import ast as pyast
        return VPy(pyast.unparse(e).replace('"', "'"))

    def setattr_hook(self, ctx, it, obj, name, v):
        o = ctx.deref(obj)
        if isinstance(obj, VRef) and isinstance(o, VObj) and name in o.fields:
            nf = dict(o.fields)
            nf[name] = v
            ctx.store(obj, VObj(o.ty, nf))
            return True
        return False

    names = property(lambda self: {"KeyToUniqueNameMap": VFunc("KeyToUniqueNameMap", self.m_map),
                                   "_make_fortran_name_generator": VFunc("_make_fortran_name_generator", self.m_gen)})

    def ensures(self, st):
        o = st._deref(st._env["self"])
        f = {n: getattr(st._deref(v), "py", None) for n, v in o.fields.items()}
        g = str(("generator", 0))
        return [("one-generator-shared-by-the-local-the-global-and-the-function-map;-<t>-<dt>-predefined",
                 B(len(self.gens) == 1 and f.get("name_generator") == ("generator", 0)
                   and f.get("local_map") == ("map", (("name_generator", g),), 0)
                   and f.get("function_map") == ("map", (("name_generator", g),), 0)
                   and f.get("global_map") == ("map", (("name_generator", g), ("start", "{'<t>': 'dagrt_t', '<dt>': 'dagrt_dt'}")), 0)))]


PY = "dagrt/codegen/python.py"
FO = "dagrt/codegen/fortran.py"
G = "get_or_make_name_for_key"


def units():
    return [
        FunctionUnit(PyInit()), FunctionUnit(ClearLocals()), FunctionUnit(FoInit()),
        FunctionUnit(NMContract(PY, "PythonNameManager", "name_global", ("_global_map", G, ("<key>",)))),
        FunctionUnit(NMContract(PY, "PythonNameManager", "name_local", ("_local_map", G, ("<key>",)), arg="local")),
        FunctionUnit(NMContract(PY, "PythonNameManager", "name_function", ("function_map", G, ("<key>",)), arg="function")),
        FunctionUnit(NMContract(FO, "FortranNameManager", "name_global", ("global_map", G, ("<key>",)), arg="var")),
        FunctionUnit(NMContract(FO, "FortranNameManager", "name_function", ("function_map", G, ("<key>",)), arg="var")),
        FunctionUnit(NMContract(FO, "FortranNameManager", "make_unique_fortran_name",
                                ("local_map", "get_mapped_identifier_without_key", ("drtf_<key>",)), arg="prefix")),
        FunctionUnit(NMContract(FO, "FortranNameManager", "name_local",
                                [("local_map", G, ("<key>",), (("prefix", "lploc_"),)), ("local_map", G, ("<key>",), (("prefix", "None"),))],
                                arg="var", extra_arg=("prefix", NONE))),
    ] + [FunctionUnit(RefCount(p_, q_)) for p_ in (False, True) for q_ in (False, True)]
