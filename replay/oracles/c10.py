"""Native oracle for C10 (runs the real dagrt.codegen.analysis.verify_code, and for accepted methods the real
ExecutionController.update_plan and create_ast_from_phase).

Input format (JSON-able, self-contained):

    {"phases": [{"name": str, "next": str, "stmts": [S, ...], "obj_name": optional str}, ...], "initial": str}
    S ::= {"id": str, "kind": K, "deps": [str, ...]}
    K ::= "nop"                      Nop
        | "assign"                   Assign  v_<id> <- 1
        | "switch:<phase>"           SwitchPhase(next_phase=<phase>)           (target may be missing)
        | "raise:<message>"          Raise(ValueError, <message>)              (the message may hold braces, percent signs, quotes)
        | "flag:<f>"                 Assign  <cond>f <- (u < 1)
        | "subflag:<f>"              Assign  <cond>f[0] <- 1                    (writes <cond>f as well)
        | "callflag:<f>,<g>,..."     AssignFunctionCall writing <cond>f, <cond>g, ...

Domain (input validity as in DESIGN section 6; anything else -> skipped / {"error": ...}): phase names distinct,
statement ids unique WITHIN a phase (the same id may occur in two phases), `next` and `initial` name existing
phases.  Dependencies are arbitrary strings: dangling, cross-phase, cyclic and self-referential ones are the point.
The phase-level `depends_on` is a computed property in this version (ids no statement of the phase depends on), a
subset of the phase's own ids by construction, so it can never be the source of ill-formedness and is not an input.

Well-formedness, computed here from the property statement only:
  (a) every dependency of every statement names a statement of the SAME phase;
  (b) each phase's dependency graph is acyclic (a self-dependency is a cycle);
  (c) every SwitchPhase targets an existing phase;
  (d) within a phase, every <cond> flag variable is written by at most one statement.

Oracle: verify_code(dag) returns normally iff (a)-(d); otherwise it raises CodeGenerationError whose `errors` is a
non-empty list of strings -- never another exception, never a hang (ITIMER guard); and for an accepted method
update_plan(phase, phase.depends_on) and create_ast_from_phase(dag, phase) raise nothing.
"""
import collections
import itertools
import json
import random
import signal

from pymbolic import var
from pymbolic.primitives import Comparison

from dagrt import language as lang
from dagrt.codegen import analysis as AN
from dagrt.codegen import dag_ast as A

TIME_GUARD_S = 10.0


# ---- JSON -> real objects -------------------------------------------------------------------------

def build_stmt(s):
    kind = s["kind"]
    kw = {"id": s["id"], "depends_on": frozenset(s.get("deps") or [])}
    if kind == "nop":
        return lang.Nop(**kw)
    if kind == "assign":
        return lang.Assign(assignee="v_" + s["id"], assignee_subscript=(), expression=1, **kw)
    if kind.startswith("switch:"):
        return lang.SwitchPhase(next_phase=kind[7:], **kw)
    if kind.startswith("raise:"):
        return lang.Raise(ValueError, kind[6:], **kw)          # the text after the colon is the error message
    if kind.startswith("flag:"):
        return lang.Assign(assignee="<cond>" + kind[5:], assignee_subscript=(),
                           expression=Comparison(var("u"), "<", 1), **kw)
    if kind.startswith("subflag:"):
        return lang.Assign(assignee="<cond>" + kind[8:], assignee_subscript=(0,), expression=1, **kw)
    if kind.startswith("callflag:"):
        return lang.AssignFunctionCall(assignees=tuple("<cond>" + f for f in kind[9:].split(",")),
                                       function_id="<func>f", parameters=(var("u"),), **kw)
    raise ValueError("bad kind %r" % (kind,))


def build(inp):
    phases = {}
    for p in inp["phases"]:
        # the method's phases are the KEYS of the mapping; the ExecutionPhase object may carry another name ("obj_name")
        phases[p["name"]] = lang.ExecutionPhase(p.get("obj_name", p["name"]), p["next"], [build_stmt(s) for s in p["stmts"]])
    return lang.DAGCode(phases, inp["initial"])


def in_domain(inp):
    names = [p["name"] for p in inp["phases"]]
    if not names:
        return "no phase"
    if len(set(names)) != len(names):
        return "duplicate phase names"
    if inp["initial"] not in names:
        return "initial phase missing"
    for p in inp["phases"]:
        if p["next"] not in names:
            return "default successor missing"
        ids = [s["id"] for s in p["stmts"]]
        if len(set(ids)) != len(ids):
            return "duplicate ids within a phase"
    return None


# ---- independent well-formedness ----------------------------------------------------------------------

def flags_written(kind):
    if kind.startswith("flag:"):
        return {kind[5:]}
    if kind.startswith("subflag:"):
        return {kind[8:]}
    if kind.startswith("callflag:"):
        return set(kind[9:].split(","))
    return set()


def defects(inp):
    """sorted list of the clauses (a)-(d) the input violates, with a witness each"""
    out = []
    names = {p["name"] for p in inp["phases"]}
    for p in inp["phases"]:
        ids = {s["id"] for s in p["stmts"]}
        for s in p["stmts"]:
            for d in sorted(s.get("deps") or []):
                if d not in ids:
                    elsewhere = any(d in {t["id"] for t in q["stmts"]} for q in inp["phases"] if q is not p)
                    out.append(("a", "%s:%s depends on %r (%s)" % (p["name"], s["id"], d,
                                "statement of another phase" if elsewhere else "no such statement")))
        # (b) on the edges that stay inside the phase: peel off statements with no remaining dependency
        remaining = {s["id"]: {d for d in (s.get("deps") or []) if d in ids} for s in p["stmts"]}
        while remaining:
            free = [i for i, d in remaining.items() if not d]
            if not free:
                out.append(("b", "%s: cycle among %s" % (p["name"], sorted(remaining))))
                break
            for i in free:
                del remaining[i]
            for d in remaining.values():
                d.difference_update(free)
        writers = collections.defaultdict(list)
        for s in p["stmts"]:
            if s["kind"].startswith("switch:") and s["kind"][7:] not in names:
                out.append(("c", "%s:%s switches to missing phase %r" % (p["name"], s["id"], s["kind"][7:])))
            for f in flags_written(s["kind"]):
                writers[f].append(s["id"])
        for f, w in sorted(writers.items()):
            if len(w) > 1:
                out.append(("d", "%s: <cond>%s written by %s" % (p["name"], f, w)))
    return sorted(out)


def cross_phase_deps(inp):
    """dependencies that name a statement existing only in another phase"""
    out = set()
    for p in inp["phases"]:
        ids = {s["id"] for s in p["stmts"]}
        other = set()
        for q in inp["phases"]:
            if q is not p:
                other |= {t["id"] for t in q["stmts"]}
        for s in p["stmts"]:
            for d in s.get("deps") or []:
                if d not in ids and d in other:
                    out.add(d)
    return out


# ---- running the real code under a time guard ---------------------------------------------------------

class Hang(BaseException):
    pass


def _alarm(signum, frame):
    raise Hang()


def guarded(fn):
    """('ok', result) | ('raised', exception) | ('hang',)"""
    old = signal.signal(signal.SIGALRM, _alarm)
    signal.setitimer(signal.ITIMER_REAL, TIME_GUARD_S)
    try:
        try:
            return ("ok", fn())
        finally:
            signal.setitimer(signal.ITIMER_REAL, 0)
    except Hang:
        return ("hang",)
    except Exception as ex:
        return ("raised", ex)
    finally:
        signal.signal(signal.SIGALRM, old)


def check(inp):
    """(failure or None, outcome label).  failure = (clause, detail, exception type name or None, exception args)"""
    bad = defects(inp)
    dag = build(inp)
    r = guarded(lambda: AN.verify_code(dag))
    if r[0] == "hang":
        return ("never-hangs", "verify_code did not return within %g s" % TIME_GUARD_S, None, None), "hang"
    if r[0] == "raised":
        ex = r[1]
        if not isinstance(ex, AN.CodeGenerationError):
            what = "ill-formed %s" % (bad,) if bad else "WELL-FORMED"
            return (("only-CodeGenerationError", "verify_code raised %s(%s) on a method that is %s"
                     % (type(ex).__name__, ", ".join(map(repr, ex.args)), what), type(ex).__name__,
                     [a for a in ex.args if isinstance(a, str)]), "raised_" + type(ex).__name__)
        errors = getattr(ex, "errors", None)
        if not bad:
            return (("accepts-well-formed", "verify_code rejected a well-formed method: %r" % (errors,), None, None),
                    "rejected")
        if not isinstance(errors, list) or not errors or not all(isinstance(e, str) and e for e in errors):
            return (("at-least-one-message", "CodeGenerationError.errors = %r" % (errors,), None, None), "rejected")
        try:
            str(ex)
        except Exception as ex2:
            return (("at-least-one-message", "str(CodeGenerationError) raised %r" % (ex2,), None, None), "rejected")
        return None, "rejected"
    if bad:
        return ("rejects-ill-formed", "verify_code accepted a method with %s" % (bad,), None, None), "accepted"
    # accepted and well-formed: the consumers must resolve every dependency
    for name in sorted(dag.phases):
        phase = dag.phases[name]

        def plan():
            ec = lang.ExecutionController(dag)
            ec.reset()
            ec.update_plan(phase, phase.depends_on)
            return ec.plan
        for label, fn in (("ExecutionController.update_plan", plan),
                          ("create_ast_from_phase", lambda: A.create_ast_from_phase(dag, name))):
            r = guarded(fn)
            if r[0] == "hang":
                return ("consumers", "%s did not return on accepted phase %s" % (label, name), None, None), "accepted"
            if r[0] == "raised":
                return (("consumers", "%s raised %s(%s) on accepted phase %s"
                         % (label, type(r[1]).__name__, r[1], name), type(r[1]).__name__, None), "accepted")
    return None, "accepted"


# ---- fingerprint -------------------------------------------------------------------------------------------

def fp_d3(inp):
    """D3: some dependency names a statement that exists only in another phase, and the observed failure is the
    KeyError for exactly such an id escaping verify_code (the global id set let it pass the existence check, the
    per-phase lookup of the cycle detector failed, no message had been collected)."""
    cross = cross_phase_deps(inp)
    if not cross:
        return False
    f, _ = check(inp)
    return (f is not None and f[0] == "only-CodeGenerationError" and f[2] == "KeyError"
            and len(f[3]) == 1 and f[3][0] in cross)


FINGERPRINTS = {"d3_dependency_on_statement_of_another_phase": fp_d3}


# ---- generators ---------------------------------------------------------------------------------------------

def subsets(xs):
    for r in range(len(xs) + 1):
        for c in itertools.combinations(xs, r):
            yield list(c)


def graph_family(sizes, dangling):
    """every way of giving each statement a dependency set over ALL ids of ALL phases (+ a dangling id)"""
    phase_ids = []
    k = 0
    for n in sizes:
        phase_ids.append(["s%d" % (k + i) for i in range(n)])
        k += n
    universe = [i for ids in phase_ids for i in ids] + (["zz"] if dangling else [])
    all_subsets = list(subsets(universe))
    nstm = sum(sizes)
    for choice in itertools.product(all_subsets, repeat=nstm):
        phases = []
        c = 0
        for pi, ids in enumerate(phase_ids):
            stmts = []
            for j, sid in enumerate(ids):
                stmts.append({"id": sid, "kind": "assign" if j == 0 else "nop", "deps": choice[c]})
                c += 1
            phases.append({"name": "p%d" % pi, "next": "p%d" % ((pi + 1) % len(sizes)), "stmts": stmts})
        yield {"phases": phases, "initial": "p0"}


KINDS = ["nop", "switch:p0", "switch:p1", "switch:nowhere", "flag:c1", "flag:c2", "callflag:c1,c2", "subflag:c1"]


def kind_family(sizes):
    nstm = sum(sizes)
    for chain in (False, True):
        for choice in itertools.product(KINDS, repeat=nstm):
            phases = []
            c = 0
            for pi, n in enumerate(sizes):
                stmts = []
                for j in range(n):
                    sid = "s%d" % c
                    stmts.append({"id": sid, "kind": choice[c],
                                  "deps": ["s%d" % (c - 1)] if chain and j > 0 else []})
                    c += 1
                phases.append({"name": "p%d" % pi, "next": "p0", "stmts": stmts})
            yield {"phases": phases, "initial": "p0"}


def random_input(rng, max_stmts):
    nph = rng.choice([1, 2, 2, 3])
    names = ["p%d" % i for i in range(nph)]
    pool = ["a", "b", "c", "d", "e", "f", "g", "h", "i", "j", "k", "l", "m", "n", "o", "q", "r", "s"]
    rng.shuffle(pool)
    share_ids = rng.random() < 0.15
    phases = []
    flags = ["c1", "c2", "c3"]
    for pi, name in enumerate(names):
        n = rng.randint(0, max_stmts)
        if share_ids:
            ids = rng.sample(pool, n)
        else:
            ids, pool = pool[:n], pool[n:]
            if len(ids) < n:
                ids = ids + ["x%d_%d" % (pi, j) for j in range(n - len(ids))]
        density = rng.choice([0.1, 0.3, 0.6])
        stmts = []
        free_flags = flags[:]
        rng.shuffle(free_flags)
        for j, sid in enumerate(ids):
            r = rng.random()
            if r < 0.45:
                kind = rng.choice(["nop", "assign"])
            elif r < 0.65:
                kind = "switch:" + rng.choice(names)
            elif free_flags:
                f = free_flags.pop()
                form = rng.random()
                if form < 0.6:
                    kind = "flag:" + f
                elif form < 0.8:
                    kind = "subflag:" + f
                elif free_flags:
                    kind = "callflag:%s,%s" % (f, free_flags.pop())
                else:
                    kind = "callflag:%s,%s" % (f, f)
            else:
                kind = "assign"
            stmts.append({"id": sid, "kind": kind, "deps": [ids[k] for k in range(j) if rng.random() < density]})
        rng.shuffle(stmts)
        phases.append({"name": name, "next": rng.choice(names), "stmts": stmts})
    inp = {"phases": phases, "initial": rng.choice(names)}
    # so far well-formed; now inject 0..3 defects
    nonempty = [p for p in phases if p["stmts"]]
    ninj = rng.choice([0, 0, 0, 1, 1, 1, 2, 3]) if nonempty else 0
    for _ in range(ninj):
        p = rng.choice(nonempty)
        s = rng.choice(p["stmts"])
        what = rng.choice(["dangling", "cross", "self", "back", "switch", "flag", "cross"])
        if what == "dangling":
            s["deps"] = s["deps"] + ["zz"]
        elif what == "cross":
            others = [t["id"] for q in phases if q is not p for t in q["stmts"]]
            if others:
                s["deps"] = sorted(set(s["deps"]) | {rng.choice(others)})
        elif what == "self":
            s["deps"] = sorted(set(s["deps"]) | {s["id"]})
        elif what == "back":
            # an edge that closes a cycle if s is reachable from t
            t = rng.choice(p["stmts"])
            t["deps"] = sorted(set(t["deps"]) | {s["id"]})
            s["deps"] = sorted(set(s["deps"]) | {t["id"]})
        elif what == "switch":
            s["kind"] = "switch:" + rng.choice(["nowhere", "P0", ""])
        elif what == "flag":
            t = rng.choice(p["stmts"])
            f = rng.choice(flags)
            s["kind"] = "flag:" + f
            t["kind"] = rng.choice(["flag:" + f, "subflag:" + f, "callflag:%s,c9" % f])
    return inp


def nontrivial(inp):
    return any(s.get("deps") or s["kind"] not in ("nop", "assign") for p in inp["phases"] for s in p["stmts"])


# ---- entry points -----------------------------------------------------------------------------------------------

def replay(inp):
    if not isinstance(inp, dict) or "phases" not in inp:
        return {"error": "input must be {'phases': [...], 'initial': ...}"}
    why = in_domain(inp)
    if why:
        return {"error": "outside the domain of C10 (%s)" % why}
    f, outcome = check(inp)
    if f is None:
        return {"fails": False, "detail": "verify_code: %s; independent well-formedness defects: %s"
                % (outcome, defects(inp) or "none")}
    return {"fails": True, "detail": "%s: %s" % (f[0], f[1])}


def bounded(payload):
    budget = payload.get("budget") or {}
    tier = payload.get("tier", "quick")
    quick = tier == "quick"
    seed = payload.get("seed", 0)
    rng = random.Random(seed)
    n_random = budget.get("random_methods", 15000 if quick else 300000)
    rand_max = budget.get("random_statements", 6 if quick else 8)
    active = {e.get("fingerprint") for e in payload.get("known", []) if e.get("fingerprint") in FINGERPRINTS}

    evals = 0
    distinct, seen = set(), set()
    classes = {}
    parts = collections.Counter()
    samples = []

    def run(inp, origin):
        nonlocal evals
        key = json.dumps(inp, separators=(",", ":"), sort_keys=True)
        if key in seen:
            parts["duplicates_not_reevaluated"] += 1
            return
        seen.add(key)
        why = in_domain(inp)
        if why:
            parts["skipped_outside_domain"] += 1
            return
        evals += 1
        parts["inputs_" + origin] += 1
        if nontrivial(inp):
            distinct.add(key)
        f, outcome = check(inp)
        bad = "".join(sorted({c for c, _ in defects(inp)}))
        parts["outcome[%s|%s]" % ("violates " + bad if bad else "well-formed", outcome)] += 1
        if f is None:
            return
        fps = tuple(sorted(n for n, fn in FINGERPRINTS.items() if fn(inp)))
        parts["failing_inputs_" + origin.split("_")[0]] += 1
        known = any(n in active for n in fps)
        if known:
            parts["failing_inputs_filtered_as_known"] += 1
        c = classes.setdefault((f[0], fps, known), [0, []])
        c[0] += 1
        c[1].append((sum(len(p["stmts"]) for p in inp["phases"]), len(key), key, f[1]))
        c[1].sort()
        del c[1][3:]

    # exhaustive: dependency graphs
    graph_shapes = [((0,), True), ((1,), True), ((2,), True), ((3,), True),
                    ((1, 1), True), ((2, 1), True), ((1, 2), True), ((1, 1, 1), True), ((0, 2), True)]
    if not quick:
        graph_shapes += [((4,), False), ((2, 2), False), ((3, 1), False)]
    for shape in budget.get("graph_shapes") or graph_shapes:
        sizes, dangling = tuple(shape[0]), shape[1]
        for inp in graph_family(sizes, dangling):
            run(inp, "graphs_%s%s" % ("+".join(map(str, sizes)), "_dangling" if dangling else ""))
    # exhaustive: switch targets x flag writers
    kind_shapes = [(1,), (2,), (1, 1), (2, 1), (2, 2)] if quick else [(1,), (2,), (3,), (1, 1), (2, 1), (2, 2), (3, 1)]
    for sizes in kind_shapes:
        for inp in kind_family(sizes):
            run(inp, "kinds_%s" % "+".join(map(str, sizes)))
    # statements whose printed text holds characters that matter to string formatting, in ill-formed methods of every kind
    for msg in ("time step {dt} is too small", "unbalanced } brace", "100% done %s %(x)s", "quote \" and ' inside", "{0} {}"):
        for deps, extra in ((["nowhere"], []), (["s1"], [{"id": "s1", "kind": "raise:" + msg, "deps": ["s0"]}]), ([], [])):
            st = [{"id": "s0", "kind": "raise:" + msg, "deps": deps}] + extra
            run({"phases": [{"name": "p", "next": "p", "stmts": st}], "initial": "p"}, "formatting_characters")
            run({"phases": [{"name": "p", "next": "p", "stmts": st + [{"id": "s9", "kind": "switch:{gone}", "deps": []}]}],
                 "initial": "p"}, "formatting_characters")
    # the same statement ids in two phases (ids are unique within a phase only), one of the switches goes nowhere
    for bad_first in (True, False):
        for names in (("first", "second"), ("b", "a")):
            t1, t2 = ("nowhere", names[0]) if bad_first else (names[1], "nowhere")
            run({"phases": [{"name": names[0], "next": names[1], "stmts": [{"id": "s0", "kind": "assign", "deps": []},
                                                                          {"id": "switch", "kind": "switch:" + t1, "deps": ["s0"]}]},
                            {"name": names[1], "next": names[0], "stmts": [{"id": "s0", "kind": "assign", "deps": []},
                                                                          {"id": "switch", "kind": "switch:" + t2, "deps": ["s0"]}]}],
                 "initial": names[0]}, "same_ids_in_two_phases")
    # phase objects whose own name differs from the key they are stored under: targets are looked up among the keys
    for keys, objs in ((("primary",), ("main",)), (("primary", "other"), ("main", "primary")), (("a", "b"), ("b", "a"))):
        for tgt in sorted(set(keys) | set(objs) | {"nowhere"}):
            for where in range(len(keys)):
                phs = []
                for i, (k_, o_) in enumerate(zip(keys, objs)):
                    st = [{"id": "s0", "kind": "assign", "deps": []}]
                    if i == where:
                        st.append({"id": "s1", "kind": "switch:" + tgt, "deps": ["s0"]})
                    phs.append({"name": k_, "obj_name": o_, "next": keys[(i + 1) % len(keys)], "stmts": st})
                run({"phases": phs, "initial": keys[0]}, "phase_object_names")
    # random tail
    for i in range(n_random):
        inp = random_input(rng, rand_max)
        run(inp, "random")
        if len(samples) < 3 and nontrivial(inp) and 3 <= sum(len(p["stmts"]) for p in inp["phases"]) <= 6 \
                and len(inp["phases"]) >= 2 and (len(samples) == 0) == bool(defects(inp)):
            samples.append(inp)

    failures = []
    for (clause, fps, known), (count, smallest) in sorted(classes.items(), key=lambda kv: (kv[0][2], kv[0][0], kv[0][1])):
        parts["class[%s|%s]" % (clause, ",".join(fps) or "-")] = count
        if known:
            continue
        for _, _, key, detail in smallest:
            failures.append({"oracle": clause, "input": json.loads(key), "detail": detail[:1500],
                             "matches_fingerprints": list(fps), "inputs_in_this_class": count})
    known_hits = []
    for e in payload.get("known", []):
        try:
            r = replay(e["native"])
        except Exception as ex:
            r = {"error": str(ex)}
        if r.get("fails"):
            known_hits.append("%s: %s" % (e["id"], e["what"]))
    return {"evaluations": evals, "distinct_nontrivial": len(distinct),
            "rule": "exhaustive (1) dependency graphs: for each phase-size vector in parts (e.g. 3; 2+1; 1+1+1) every "
                    "way of giving every statement a dependency set over ALL ids of ALL phases plus one dangling id "
                    "(self-loops, cycles, cross-phase and dangling edges included; thorough adds 4, 2+2, 3+1 without "
                    "the dangling id); (2) kinds: for phase-size vectors up to 2+2 (thorough 3+1) every assignment of "
                    "{Nop, SwitchPhase to p0 / p1 / a missing phase, Assign to <cond>c1 / <cond>c2, call writing both, "
                    "subscripted Assign to <cond>c1[0]} with and without a dependency chain; then %d seeded random "
                    "methods (1-3 phases, 0-%d statements each, well-formed by construction, then 0-3 injected defects: "
                    "dangling / cross-phase / self / back edge, missing switch target, second flag writer; 15%% reuse "
                    "ids across phases).  Each is checked against an independent implementation of clauses (a)-(d); "
                    "accepted ones are run through update_plan and create_ast_from_phase.  non-trivial = at least one "
                    "dependency edge, switch or flag writer; distinct = distinct JSON input" % (n_random, rand_max),
            "bound": "exhaustive: <= 3 statements in one phase / <= 3 over 2-3 phases with a dangling id (thorough: 4 "
                     "statements over <= 2 phases); kinds <= 4 statements over 2 phases; random <= 3 phases x %d "
                     "statements; %g s time guard per call" % (rand_max, TIME_GUARD_S),
            "samples": samples[:4], "failures": failures[:20], "known_hits": known_hits,
            "parts": dict(sorted(parts.items())), "exhaustive": False}
