"""C19 — printing an expression and parsing it back returns the same expression (bounded, one clause proved).

parse and str are driven by pymbolic's table-based lexer, recursive-descent parser and
stringifier; dagrt contributes one regular expression, one terminal rule and the backtick
post-pass.  No function within reach has a contract that implies the round trip: that part is
the bounded contract check of DESIGN.md section 6/C19, labelled exploration and never counted
as proved.  The backtick clause ("backtick-quoted names denote the variable between the
backticks") is carried by one function of dagrt, parse.remove_backticks, which is under contract.
"""
import ast as pyast
import z3
from z3 import And, Or, Not, Implies, If

from pyvc.values import *  # noqa
from pyvc.contracts import FunctionContract, FunctionUnit

PROP = "C19"


class VNode(V):
    """the node handed to the substitution function: a Variable with a (string) name, or anything else"""
    ty = None

    def __init__(self, is_var, name):
        self.is_var, self.name = is_var, name


class RemoveBackticks(FunctionContract):
    """A-SUBST: pymbolic's SubstitutionMapper takes a non-None result as the finished substitution and
    descends only on None.  So the function must return None for everything but a backticked variable."""
    prop = PROP
    relpath = "dagrt/expression.py"
    qualname = "parse.remove_backticks"
    strings_symbolic = True

    def __init__(self):
        self.is_var = z3.Bool("expr_is_a_Variable")
        self.name = z3.String("expr_name")

    def params(self, ctx):
        ctx.env["expr"] = VNode(self.is_var, self.name)
        ctx.ghost["built"] = z3.StringVal("")

    def isinstance_hook(self, ctx, it, obj, names):
        if isinstance(obj, VNode) and names == ["var"]:
            return VBool(obj.is_var)
        return None

    def getattr_hook(self, ctx, it, obj, name):
        o = ctx.deref(obj)
        if isinstance(o, VNode) and name == "name":
            if not ctx.branch(o.is_var, "has-name"):
                ctx.raise_("AttributeError")
            return VStr(o.name)
        return None

    def m_var(self, ctx, it, args, kw):
        s = ctx.deref(args[0])
        ctx.ghost["built"] = s.t
        return VNode(z3.BoolVal(True), s.t)

    names = property(lambda self: {"var": VFunc("var", self.m_var)})

    def ensures(self, st):
        n = self.name
        L = z3.Length(n)
        quoted = And(self.is_var, z3.PrefixOf(z3.StringVal("`"), n), z3.SuffixOf(z3.StringVal("`"), n))
        r = st.result
        is_none = isinstance(r, VNone)
        return [("None-unless-a-backticked-variable(so-the-mapper-keeps-descending)",
                 z3.BoolVal(is_none) == Not(quoted)),
                ("a-backticked-variable-becomes-the-variable-between-the-backticks",
                 Implies(And(quoted, L >= 2), z3.BoolVal(not is_none) if is_none else
                         And(r.is_var, r.name == z3.SubString(n, 1, L - 2))))]


class ParseBody(FunctionContract):
    """parse(expr) is SubstitutionMapper(remove_backticks)(_ExtendedParser()(expr)): the parser's result goes through the
    backtick post-pass exactly once and nothing else is done to it.  The parser and the mapper are uninterpreted (A-SUBST is
    stated for pymbolic.mapper.substitutor.SubstitutionMapper: the local imports, which the extraction drops, are read from
    the real source and must bind exactly that class and pymbolic.var; any other class is outside the assumption)."""
    prop = PROP
    relpath = "dagrt/expression.py"
    qualname = "parse"
    WANT_IMPORTS = {"var": ("pymbolic", "var"), "SubstitutionMapper": ("pymbolic.mapper.substitutor", "SubstitutionMapper")}

    def __init__(self):
        self.E = z3.DeclareSort("Expr")
        self.text = z3.Const("expr_text", z3.StringSort())
        self.P = z3.Function("extended_parser", z3.StringSort(), self.E)
        self.S = z3.Function("substitute_with_remove_backticks", self.E, self.E)

    def load(self):
        ex = super().load()
        from pyvc import extract
        tree, text = extract.parse_module(self.relpath)
        fn = [n for n in tree.body if isinstance(n, pyast.FunctionDef) and n.name == "parse"][-1]
        bound = {}
        for n in pyast.walk(fn):
            if isinstance(n, pyast.ImportFrom):
                for al in n.names:
                    bound[al.asname or al.name] = (n.module, al.name)
            elif isinstance(n, pyast.Import):
                for al in n.names:
                    bound[al.asname or al.name] = (al.name, None)
        for name, src in bound.items():
            if self.WANT_IMPORTS.get(name) != src:
                raise Unsupported("parse binds %s to %s.%s: A-SUBST does not cover it" % (name, src[0], src[1]))
        return ex

    def params(self, ctx):
        ctx.env["expr"] = VStr(self.text)

    def m_parser_cls(self, ctx, it, args, kw):
        if args or kw:
            raise Unsupported("_ExtendedParser(...) with arguments")
        return VFunc("parser", self.m_parser)

    def m_parser(self, ctx, it, args, kw):
        a = ctx.deref(args[0])
        if len(args) != 1 or kw or not isinstance(a, VStr):
            raise Unsupported("parser(%r)" % (args,))
        return VElem(None, self.P(a.t))

    def m_mapper_cls(self, ctx, it, args, kw):
        f = ctx.deref(args[0]) if len(args) == 1 and not kw else None
        if not (isinstance(f, VPy) and f.py == "<remove_backticks>"):
            raise Unsupported("SubstitutionMapper(%r)" % (args,))
        return VFunc("substitutor", self.m_subst)

    def m_subst(self, ctx, it, args, kw):
        a = ctx.deref(args[0])
        if len(args) != 1 or kw or not (isinstance(a, VElem) and z3.is_expr(a.t) and a.t.sort() == self.E):
            raise Unsupported("substitutor(%r)" % (args,))
        return VElem(None, self.S(a.t))

    nested = {"remove_backticks": VPy("<remove_backticks>")}
    names = property(lambda self: {"_ExtendedParser": VFunc("_ExtendedParser", self.m_parser_cls),
                                   "SubstitutionMapper": VFunc("SubstitutionMapper", self.m_mapper_cls)})

    def ensures(self, st):
        r = st._deref(st.result)
        if not (isinstance(r, VElem) and z3.is_expr(r.t) and r.t.sort() == self.E):
            return [("returns-an-expression", z3.BoolVal(False))]
        return [("the-parsed-expression-goes-through-the-backtick-post-pass-exactly-once",
                 r.t == self.S(self.P(self.text)))]


def units():
    return [FunctionUnit(RemoveBackticks()), FunctionUnit(ParseBody())]


LEVEL = "exploration"
BOUNDED = {"quick": {"timeout_s": 90}, "thorough": {"timeout_s": 900}}
TRUSTED_BASE = ["A-SUBST: pymbolic SubstitutionMapper descends exactly when the substitution function returns None"]
ASSUMPTIONS = [
    "the round-trip contract parse(str(e)) == e (prints identically, same variables, same value under valuations) is only evaluated on enumerated / random expressions of the real dagrt.expression.parse and pymbolic's printer: bounded, never counted as proved",
    "only the backtick post-pass (parse.remove_backticks) and the body of parse (parser, then the post-pass, once) are under deductive contract; pymbolic's parser and SubstitutionMapper are uninterpreted there",
]
EXPLANATION = ("bounded contract check: exhaustive expressions to depth 2-3 over the property's operator set plus a random tail, "
               "evaluated with exact rational arithmetic; known printer / parser defects are listed by fingerprint. One function "
               "(the backtick substitution function) is proved against its contract with z3 strings.")
