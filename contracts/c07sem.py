"""C07 — semantic contract of ExprIfThenElseExpander.map_if (conditional-expression expansion).

Rewriter method contract RW, for M(expr, base_condition, base_deps, extra_deps) of an expression-level rewriter that
appends statements S1..Sn to self.new_statements and returns r.  Let K be the set of names known to the name
generator on entry (it contains every name of the phase tree, C07 VarNameGenerator / apply_statement_rewriter), and
require vars(expr), vars(base_condition) within K.  Then for EVERY state s, with s' = the state after executing
S1..Sn in list order from s (each statement runs iff its guard holds):
   (a) s' agrees with s on K                      (only new names are written: every original variable keeps its value)
   (b) base_condition holds in s  =>  value(r, s') = value(expr, s)
   (c) vars(r) within K' (the generator's set on exit), K within K'
   (d) base_condition does not hold in s  =>  s' = s   (no introduced statement runs: nothing is computed, no call made)
map_if is proved to satisfy RW given RW for self.rec (structural induction over the expression, argued) — with the
provenance clauses (fresh ids, branch statements depend on the flag statement, extra_deps receives both branch ids).

Encoding: states are arrays Name -> Val; `cur` is the ghost state reached by the statements appended so far, starting
from an arbitrary state s0; every append applies the statement's effect to `cur`; a call of self.rec havocs `cur` under
RW.  value(e, s) is uninterpreted except: frame (depends only on vars(e)), variables, If, LogicalNot, flat_LogicalAnd.
"""
import ast as pyast
import z3
from z3 import And, Or, Not, Implies, ForAll, Select, Store, If, BoolSort

from pyvc.values import *  # noqa
from pyvc.contracts import FunctionContract, FunctionUnit
from .dagspec import VarName, VARNAME
from .c08 import Expr, EXPR, NameSet, vars_

REL = "dagrt/codegen/transform.py"
Val = z3.DeclareSort("Val7")
State = z3.ArraySort(VarName, Val)
ev = z3.Function("value_of", Expr, State, Val)
truth = z3.Function("truth_of", Val, BoolSort())
mkvar = z3.Function("Variable", VarName, Expr)
mknot = z3.Function("LogicalNot", Expr, Expr)
mkand = z3.Function("flat_LogicalAnd", Expr, Expr, Expr)
TRUE = z3.Const("True_condition", Expr)
if_c = z3.Function("if_condition", Expr, Expr)
if_t = z3.Function("if_then", Expr, Expr)
if_e = z3.Function("if_else", Expr, Expr)
IS_IF = z3.Function("is_If", Expr, BoolSort())
wit = z3.Function("frame_witness", Expr, State, State, VarName)


def holds(c, s):
    return truth(ev(c, s))


def agree(Kset, s1, s2):
    n = z3.Const("n", VarName)
    return ForAll([n], Implies(Select(Kset, n), Select(s1, n) == Select(s2, n)))


def within(e, Kset):
    n = z3.Const("n", VarName)
    return ForAll([n], Implies(Select(vars_(e), n), Select(Kset, n)))


def sem_axioms():
    e, a, b = z3.Consts("e a b", Expr)
    s, s1, s2 = z3.Consts("s s1 s2", State)
    n = z3.Const("n", VarName)
    w = wit(e, s1, s2)
    return [
        # frame: the value of an expression depends only on the variables that occur in it (skolemised)
        ForAll([e, s1, s2], Implies(ev(e, s1) != ev(e, s2), And(Select(vars_(e), w), Select(s1, w) != Select(s2, w))),
               patterns=[z3.MultiPattern(ev(e, s1), ev(e, s2))]),
        ForAll([n, s], ev(mkvar(n), s) == Select(s, n)),
        ForAll([n], vars_(mkvar(n)) == Store(z3.K(VarName, z3.BoolVal(False)), n, True)),
        ForAll([e, s], Implies(IS_IF(e), ev(e, s) == If(holds(if_c(e), s), ev(if_t(e), s), ev(if_e(e), s)))),
        ForAll([e, n], Implies(IS_IF(e), And(Implies(Select(vars_(if_c(e)), n), Select(vars_(e), n)),
                                             Implies(Select(vars_(if_t(e)), n), Select(vars_(e), n)),
                                             Implies(Select(vars_(if_e(e)), n), Select(vars_(e), n))))),
        ForAll([e, s], holds(mknot(e), s) == Not(holds(e, s))),
        ForAll([e], vars_(mknot(e)) == vars_(e)),
        ForAll([a, b, s], holds(mkand(a, b), s) == And(holds(a, s), holds(b, s))),
        ForAll([a, b, n], Select(vars_(mkand(a, b)), n) == Or(Select(vars_(a), n), Select(vars_(b), n))),
        ForAll([s], holds(TRUE, s)),
        ForAll([n], Not(Select(vars_(TRUE), n))),
    ]


class VDeps7(V):
    """a dependency set as a set of tags (python level: each path is concrete about what was put together)"""
    ty = None

    def __init__(self, tags):
        self.tags = frozenset(tags)


class VIdList(V):
    """a list of statement ids under construction (extra_deps and the sub_*_deps lists)"""
    ty = None

    def __init__(self, label):
        self.label = label
        self.got = []


class VId7(V):
    ty = None

    def __init__(self, label):
        self.label = label


class VStmt7(V):
    ty = None

    def __init__(self, assignee, expr, cond, sid, deps):
        self.assignee, self.expr, self.cond, self.sid, self.deps = assignee, expr, cond, sid, deps


class VSink(V):
    """self.new_statements: appending executes the statement on the ghost state `cur`"""
    ty = None


class MapIf(FunctionContract):
    prop = "C07"
    relpath = REL
    qualname = "ExprIfThenElseExpander.map_if"
    prune_quantified = False
    axioms = property(lambda self: tuple(sem_axioms()))

    def __init__(self):
        self.e = z3.Const("expr", Expr)
        self.base = z3.Const("base_condition", Expr)
        self.s0 = z3.Const("s0", State)
        self.K0 = z3.Const("K0", NameSet)

    def params(self, ctx):
        self.nfresh = 0
        self.nid = 0
        ctx.env["self"] = VObj(TObj("Expander", {}), {
            "var_name_gen": VFunc("var_name_gen", self.m_fresh_name), "stmt_id_gen": VFunc("stmt_id_gen", self.m_fresh_id),
            "new_statements": VSink()})
        ctx.env["expr"] = EXPR.wrap(self.e)
        ctx.env["base_condition"] = EXPR.wrap(self.base)
        ctx.env["base_deps"] = VDeps7({"base"})
        self.extra = VIdList("extra_deps")
        ctx.env["extra_deps"] = self.extra
        ctx.ghost["cur"] = self.s0
        ctx.ghost["K"] = self.K0
        ctx.ghost["appended"] = 0

    def requires(self, st):
        return [("node-is-a-conditional-expression", IS_IF(self.e)),
                ("names-of-the-expression-are-known-to-the-generator", within(self.e, self.K0)),
                ("names-of-the-guard-are-known-to-the-generator", within(self.base, self.K0))]

    # ---- generators (A-UNG) ----------------------------------------------------------------------------
    def m_fresh_name(self, ctx, it, args, kw):
        n = z3.Const(fresh_name("fresh_name"), VarName)
        ctx.assume(Not(Select(ctx.ghost["K"], n)))
        ctx.ghost["K"] = Store(ctx.ghost["K"], n, True)
        return VARNAME.wrap(n)

    def m_fresh_id(self, ctx, it, args, kw):
        self.nid += 1
        return VId7("fresh-id-%d" % self.nid)

    # ---- expression constructors ---------------------------------------------------------------------------
    def m_var(self, ctx, it, args, kw):
        n = ctx.deref(args[0])
        if not (isinstance(n, VElem) and n.ty is VARNAME):
            raise Unsupported("var(%r)" % (n,))
        return EXPR.wrap(mkvar(n.t))

    def m_not(self, ctx, it, args, kw):
        return EXPR.wrap(mknot(ctx.deref(args[0]).t))

    def m_and(self, ctx, it, args, kw):
        a, b = [ctx.deref(x) for x in args]
        return EXPR.wrap(mkand(a.t, b.t))

    def getattr_hook(self, ctx, it, obj, name):
        o = ctx.deref(obj)
        if isinstance(o, VElem) and o.ty is EXPR:
            if name == "name":
                # .name of a Variable built by var(n)
                t = o.t
                if z3.is_app(t) and t.decl().eq(mkvar):
                    return VARNAME.wrap(t.arg(0))
                raise Unsupported(".name of a non-variable")
            if name == "condition":
                return EXPR.wrap(if_c(o.t))
            if name == "then":
                return EXPR.wrap(if_t(o.t))
            if name == "else_":
                return EXPR.wrap(if_e(o.t))
        if isinstance(o, VSink) and name in ("append", "extend"):
            return VFunc(name, self.m_append if name == "append" else self.m_extend)
        if isinstance(o, VIdList) and name in ("append", "extend"):
            return VFunc(name, lambda ctx, it, a, k: self.m_ids(ctx, o, name, a))
        return None

    def m_ids(self, ctx, lst, how, args):
        x = ctx.deref(args[0])
        items = [ctx.deref(i) for i in x.items] if (how == "extend" and isinstance(x, VTuple)) else [x]
        for i in items:
            lst.got.append(i.label if isinstance(i, VId7) else "?")
        return NONE

    def list_literal(self, ctx, it, e):
        if not e.elts:
            self.nlists = getattr(self, "nlists", 0) + 1
            return VIdList("list-%d@L%d" % (self.nlists, e.lineno))
        return VTuple([ctx.deref(it.eval(x)) for x in e.elts])

    def m_frozenset(self, ctx, it, args, kw):
        a = ctx.deref(args[0])
        if isinstance(a, VIdList):
            return VDeps7({"ids-of:" + a.label})
        if isinstance(a, VTuple):
            return VDeps7({(x.label if isinstance(x, VId7) else "?") for x in a.items})
        raise Unsupported("frozenset(%r)" % (a,))

    def binop_hook(self, ctx, it, op_, a, b):
        if op_ is pyast.BitOr and isinstance(a, VDeps7) and isinstance(b, VDeps7):
            return VDeps7(a.tags | b.tags)
        return None

    # ---- self.rec by contract RW ----------------------------------------------------------------------------------
    def m_rec(self, ctx, it, args, kw):
        e, cond, deps, sub = [ctx.deref(a) for a in args]
        if not (isinstance(sub, VIdList) and isinstance(deps, VDeps7)):
            raise Unsupported("rec(...) with %r, %r" % (deps, sub))
        cur, Kset = ctx.ghost["cur"], ctx.ghost["K"]
        tag = "rec@L%s" % ctx.cur_line
        ctx.oblige("call[%s]/pre[names-of-the-subexpression-are-known]" % tag, within(e.t, Kset))
        ctx.oblige("call[%s]/pre[names-of-its-guard-are-known]" % tag, within(cond.t, Kset))
        r = z3.Const(fresh_name("rec_result"), Expr)
        cur2 = z3.Const(fresh_name("state_after_rec"), State)
        K2 = z3.Const(fresh_name("K_after_rec"), NameSet)
        n = z3.Const("n", VarName)
        ctx.assume(agree(Kset, cur2, cur))
        ctx.assume(Implies(holds(cond.t, cur), ev(r, cur2) == ev(e.t, cur)))
        ctx.assume(Implies(Not(holds(cond.t, cur)), cur2 == cur))
        ctx.assume(within(r, K2))
        ctx.assume(ForAll([n], Implies(Select(Kset, n), Select(K2, n))))
        ctx.ghost["cur"] = cur2
        ctx.ghost["K"] = K2
        ctx.ghost["rec_calls"] = ctx.ghost.get("rec_calls", []) + [(e.t, cond.t, deps.tags, sub.label)]
        return EXPR.wrap(r)

    # ---- statements ---------------------------------------------------------------------------------------------------
    def m_assign(self, ctx, it, args, kw):
        k = {n: ctx.deref(v) for n, v in kw.items()}
        for name, v in zip(("assignee", "assignee_subscript", "expression"), args):
            k[name] = ctx.deref(v)
        if len(args) > 3:
            raise Unsupported("positional Assign(...)")
        sub = k.get("assignee_subscript")
        if not (isinstance(sub, VTuple) and not sub.items):
            raise Unsupported("subscripted temporary")
        a, x, c = k.get("assignee"), k.get("expression"), k.get("condition")
        if isinstance(c, VBool) and z3.is_true(z3.simplify(c.t)):
            c = EXPR.wrap(TRUE)
        if not (isinstance(a, VElem) and a.ty is VARNAME and isinstance(x, VElem) and isinstance(c, VElem)):
            raise Unsupported("Assign(%r)" % (k,))
        return VStmt7(a.t, x.t, c.t, k.get("id"), k.get("depends_on"))

    def run(self, ctx, st):
        cur = ctx.ghost["cur"]
        ctx.ghost["cur"] = If(holds(st.cond, cur), Store(cur, st.assignee, ev(st.expr, cur)), cur)
        ctx.ghost["stmts"] = ctx.ghost.get("stmts", []) + [st]

    def m_append(self, ctx, it, args, kw):
        st = ctx.deref(args[0])
        if not isinstance(st, VStmt7):
            raise Unsupported("append(%r)" % (st,))
        self.run(ctx, st)
        return NONE

    def m_extend(self, ctx, it, args, kw):
        l = ctx.deref(args[0])
        if not isinstance(l, VTuple):
            raise Unsupported("extend(%r)" % (l,))
        for st in l.items:
            st = ctx.deref(st)
            if not isinstance(st, VStmt7):
                raise Unsupported("extend with %r" % (st,))
            self.run(ctx, st)
        return NONE

    names = property(lambda self: {
        "var": VFunc("var", self.m_var), "LogicalNot": VFunc("LogicalNot", self.m_not),
        "flat_LogicalAnd": VFunc("flat_LogicalAnd", self.m_and), "Assign": VFunc("Assign", self.m_assign),
        "frozenset": VFunc("frozenset", self.m_frozenset)})
    calls = property(lambda self: {"self.rec": self.m_rec})

    # ---- postcondition ---------------------------------------------------------------------------------------------------
    def ensures(self, st):
        r = st.result
        cur, Kset = st.g("cur"), st.g("K")
        stmts = st._ghost.get("stmts", [])
        recs = st._ghost.get("rec_calls", [])
        if not (isinstance(r, VElem) and r.ty is EXPR):
            return [("returns-an-expression", z3.BoolVal(False))]
        out = [
            ("RW(a): every-name-known-on-entry-keeps-its-value(only-new-names-are-written)", agree(self.K0, cur, self.s0)),
            ("RW(b): where-the-guard-holds-the-result-has-the-value-of-the-conditional-expression",
             Implies(holds(self.base, self.s0), ev(r.t, cur) == ev(self.e, self.s0))),
            ("RW(c): the-result-mentions-only-names-known-to-the-generator", within(r.t, Kset)),
            ("RW(d): where-the-guard-does-not-hold-no-introduced-statement-runs(state-unchanged)",
             Implies(Not(holds(self.base, self.s0)), cur == self.s0)),
        ]
        # provenance: ids, dependencies, what the caller is told to depend on
        ids = [s.sid.label if isinstance(s.sid, VId7) else "?" for s in stmts]
        out.append(("three-statements-with-three-different-fresh-ids",
                    z3.BoolVal(len(stmts) == 3 and len(set(ids)) == 3 and all(i.startswith("fresh-id-") for i in ids))))
        if len(stmts) == 3 and len(recs) == 3:
            flag_id = ids[0]
            d = [s.deps.tags if isinstance(s.deps, VDeps7) else frozenset(["?"]) for s in stmts]
            out.append(("flag-statement-depends-on-the-base-dependencies-and-on-what-its-condition-introduced",
                        z3.BoolVal(d[0] == frozenset({"base", "ids-of:" + recs[0][3]}))))
            out.append(("branch-statements-depend-on-the-flag-statement(the-flag-is-set-before-it-is-tested)",
                        z3.BoolVal(d[1] == frozenset({"base", "ids-of:" + recs[1][3], flag_id})
                                   and d[2] == frozenset({"base", "ids-of:" + recs[2][3], flag_id}))))
            out.append(("statements-introduced-for-the-branches-depend-on-the-flag-statement",
                        z3.BoolVal(recs[1][2] == frozenset({"base", flag_id}) and recs[2][2] == frozenset({"base", flag_id})
                                   and recs[0][2] == frozenset({"base"}))))
            out.append(("the-three-sub-lists-are-different-lists", z3.BoolVal(len({recs[0][3], recs[1][3], recs[2][3]}) == 3)))
            out.append(("caller-is-told-to-depend-on-both-branch-statements",
                        z3.BoolVal(set(self.extra.got) >= {ids[1], ids[2]})))
        else:
            out.append(("three-recursive-calls-and-three-statements", z3.BoolVal(False)))
        return out


class IsolateArgSem(MapIf):
    """ExprFunctionArgumentIsolator.isolate_arg: RW for a hoisted argument (a variable is returned as it is)"""
    qualname = "ExprFunctionArgumentIsolator.isolate_arg"
    from .c08 import is_variable as IS_VARIABLE
    IS_VARIABLE = staticmethod(IS_VARIABLE)

    def requires(self, st):
        return [("names-of-the-expression-are-known-to-the-generator", within(self.e, self.K0)),
                ("names-of-the-guard-are-known-to-the-generator", within(self.base, self.K0))]

    def isinstance_hook(self, ctx, it, obj, names):
        if isinstance(obj, VElem) and obj.ty is EXPR and names == ["Variable"]:
            return VBool(self.IS_VARIABLE(obj.t))
        return None

    names = property(lambda self: dict(MapIf.names.fget(self), Variable=VClass("Variable")))

    def ensures(self, st):
        r = st.result
        cur, Kset = st.g("cur"), st.g("K")
        stmts = st._ghost.get("stmts", [])
        recs = st._ghost.get("rec_calls", [])
        if not (isinstance(r, VElem) and r.ty is EXPR):
            return [("returns-an-expression", z3.BoolVal(False))]
        out = [
            ("RW(a): every-name-known-on-entry-keeps-its-value(only-new-names-are-written)", agree(self.K0, cur, self.s0)),
            ("RW(b): where-the-guard-holds-the-result-has-the-value-of-the-argument",
             Implies(holds(self.base, self.s0), ev(r.t, cur) == ev(self.e, self.s0))),
            ("RW(c): the-result-mentions-only-names-known-to-the-generator", within(r.t, Kset)),
            ("RW(d): where-the-guard-does-not-hold-no-introduced-statement-runs(state-unchanged)",
             Implies(Not(holds(self.base, self.s0)), cur == self.s0)),
        ]
        if not stmts:
            out.append(("only-a-variable-is-left-in-place", And(self.IS_VARIABLE(self.e), r.t == self.e)))
            out.append(("nothing-is-reported-to-the-caller", z3.BoolVal(not self.extra.got and not recs)))
            return out
        ids = [s.sid.label if isinstance(s.sid, VId7) else "?" for s in stmts]
        d = stmts[0].deps.tags if isinstance(stmts[0].deps, VDeps7) else frozenset(["?"])
        out.append(("one-statement-with-a-fresh-id", z3.BoolVal(len(stmts) == 1 and ids[0].startswith("fresh-id-"))))
        out.append(("it-depends-on-the-base-dependencies-and-on-what-the-argument-introduced",
                    z3.BoolVal(len(recs) == 1 and d == frozenset({"base", "ids-of:" + recs[0][3]})
                               and recs[0][2] == frozenset({"base"}))))
        out.append(("caller-is-told-to-depend-on-it", z3.BoolVal(ids[0] in self.extra.got)))
        return out


class FlatAnd(FunctionContract):
    """flat_LogicalAnd(*children): holds iff every child holds; mentions exactly the children's names"""
    prop = "C07"
    relpath = REL
    qualname = "flat_LogicalAnd"
    prune_quantified = False

    def __init__(self):
        self.a = z3.Const("child_a", Expr)
        self.b = z3.Const("child_b", Expr)
        self.s = z3.Const("s", State)

    IS_AND = z3.Function("is_LogicalAnd", Expr, BoolSort())
    AND_ALL = z3.Function("all_children_hold", Expr, State, BoolSort())      # of a LogicalAnd node
    AND_VARS = vars_

    def params(self, ctx):
        ctx.env["children"] = VTuple([EXPR.wrap(self.a), EXPR.wrap(self.b)])
        ctx.ghost["all"] = z3.BoolVal(True)      # conjunction of what was put into `result`
        ctx.ghost["names"] = z3.K(VarName, z3.BoolVal(False))

    def list_literal(self, ctx, it, e):
        if e.elts:
            raise Unsupported("list literal")
        return VCollect()

    def isinstance_hook(self, ctx, it, obj, names):
        if isinstance(obj, VElem) and names == ["LogicalAnd"]:
            return VBool(self.IS_AND(obj.t))
        return None

    def getattr_hook(self, ctx, it, obj, name):
        o = ctx.deref(obj)
        if isinstance(o, VElem) and name == "children":
            return VChildrenOf(o.t)
        if isinstance(o, VCollect) and name in ("append", "extend"):
            return VFunc(name, lambda ctx, it, a, k: self.m_collect(ctx, name, a))
        return None

    def m_collect(self, ctx, how, args):
        x = ctx.deref(args[0])
        s = self.s
        n = z3.Const("n", VarName)
        if how == "append" and isinstance(x, VElem):
            ctx.ghost["all"] = And(ctx.ghost["all"], holds(x.t, s))
            ctx.ghost["names"] = z3.Map(z3.Or(z3.Bool("p"), z3.Bool("q")).decl(), ctx.ghost["names"], vars_(x.t))
        elif how == "extend" and isinstance(x, VChildrenOf):
            # a LogicalAnd node holds iff all its children hold, and mentions what they mention
            ctx.ghost["all"] = And(ctx.ghost["all"], holds(x.of, s))
            ctx.ghost["names"] = z3.Map(z3.Or(z3.Bool("p"), z3.Bool("q")).decl(), ctx.ghost["names"], vars_(x.of))
        else:
            raise Unsupported("result.%s(%r)" % (how, x))
        return NONE

    def m_mk(self, ctx, it, args, kw):
        t = ctx.deref(args[0])
        if not isinstance(t, VCollect):
            raise Unsupported("LogicalAnd(%r)" % (t,))
        r = z3.Const(fresh_name("and_node"), Expr)
        # semantics of a LogicalAnd node over the collected children
        ctx.assume(holds(r, self.s) == ctx.ghost["all"])
        ctx.assume(vars_(r) == ctx.ghost["names"])
        return EXPR.wrap(r)

    names = property(lambda self: {"LogicalAnd": VFunc("LogicalAnd", self.m_mk), "tuple": VFunc("tuple", lambda ctx, it, a, k: a[0])})

    def ensures(self, st):
        r = st.result
        n = z3.Const("n", VarName)
        return [("holds-iff-both-arguments-hold", holds(r.t, self.s) == And(holds(self.a, self.s), holds(self.b, self.s))),
                ("mentions-exactly-the-names-of-its-arguments",
                 ForAll([n], Select(vars_(r.t), n) == Or(Select(vars_(self.a), n), Select(vars_(self.b), n))))]


class VCollect(V):
    ty = None


class VChildrenOf(V):
    ty = None

    def __init__(self, of):
        self.of = of


def units():
    return [FunctionUnit(MapIf()), FunctionUnit(FlatAnd())]


# ---- the three statement-level drivers: StatementFunctionArgumentIsolator / StatementFunctionCallIsolator /
#      StatementIfThenElseExpander .map_statement -----------------------------------------------------------------
class VNewList(V):
    """the new_statements list of one map_statement call"""
    ty = None

    def __init__(self):
        self.items = []


class VRewriterObj(V):
    ty = None

    def __init__(self, ok):
        self.ok = ok


class VDrvStmt(V):
    """the statement being rewritten, or a copy of it (guard: 'own' | 'True'; mapped: None | ok flag)"""
    ty = None

    def __init__(self, guard="own", mapped=None, deps="own"):
        self.guard, self.mapped, self.deps = guard, mapped, deps


class StmtDriver(FunctionContract):
    prop = "C07"
    relpath = REL

    def __init__(self, cls, rewriter_cls, only_assign=False):
        self.qualname = cls + ".map_statement"
        self.rewriter_cls = rewriter_cls
        self.only_assign = only_assign
        self.is_assign = z3.Bool("stmt_is_Assign")
        self.rhs_is_call = z3.Bool("rewritten_rhs_is_a_call")

    def params(self, ctx):
        self.gen_v, self.gen_i = VFunc("var_name_gen", None), VFunc("stmt_id_gen", None)
        ctx.env["self"] = VObj(TObj("Driver", {}), {"var_name_gen": self.gen_v, "stmt_id_gen": self.gen_i})
        self.stmt = VDrvStmt()
        ctx.env["stmt"] = self.stmt
        self.lists = []
        self.new_deps = []

    def list_literal(self, ctx, it, e):
        if len(e.elts) == 1:
            v = ctx.deref(it.eval(e.elts[0]))
            return VPy("[stmt]" if v is self.stmt else "[?]")
        if e.elts:
            raise Unsupported("list literal")
        l = VNewList()
        self.lists.append(l)
        return l

    def m_rewriter(self, ctx, it, args, kw):
        k = {n: ctx.deref(v) for n, v in kw.items()}
        ok = (not args and isinstance(k.get("new_statements"), VNewList) and k.get("stmt_id_gen") is self.gen_i
              and k.get("var_name_gen") is self.gen_v)
        self.rw_list = k.get("new_statements")
        return VRewriterObj(bool(ok))

    def getattr_hook(self, ctx, it, obj, name):
        o = ctx.deref(obj)
        if isinstance(o, VDrvStmt):
            if name == "depends_on":
                return VDeps7({"base"}) if o.deps == "own" else VDeps7({"?"})
            if name == "condition":
                return VPy("<guard of stmt>") if o.guard == "own" else VPy("<other guard>")
            if name == "copy":
                return VFunc("copy", lambda ctx, it, a, k: self.m_copy(ctx, o, k))
            if name == "map_expressions":
                return VFunc("map_expressions", lambda ctx, it, a, k: self.m_map(ctx, o, a, k))
            if name == "rhs":
                return VPy("<rhs>")
        if isinstance(o, VNewList) and name == "append":
            return VFunc("append", lambda ctx, it, a, k: (o.items.append(ctx.deref(a[0])), NONE)[1])
        return None

    def m_copy(self, ctx, o, kw):
        k = {n: ctx.deref(v) for n, v in kw.items()}
        guard, deps = o.guard, o.deps
        if "condition" in k:
            c = k["condition"]
            if isinstance(c, VBool) and z3.is_true(z3.simplify(c.t)):
                guard = "True"
            elif isinstance(c, VPy) and c.py == "<guard of stmt>":
                guard = "own"
            else:
                guard = "?"
        if "depends_on" in k:
            d = k["depends_on"]
            deps = d.tags if isinstance(d, VDeps7) else "?"
        extra = set(k) - {"condition", "depends_on"}
        if extra:
            raise Unsupported("copy(%s)" % ", ".join(sorted(extra)))
        return VDrvStmt(guard, o.mapped, deps)

    def m_map(self, ctx, o, args, kw):
        f = ctx.deref(args[0]) if args else None
        txt = f.py[1] if isinstance(f, VPy) and isinstance(f.py, tuple) else ""
        try:
            lam = pyast.parse(txt, mode="eval").body
        except SyntaxError:
            lam = None
        ok = False
        if isinstance(lam, pyast.Lambda) and len(lam.args.args) == 1 and isinstance(lam.body, pyast.Call):
            c = lam.body
            x = lam.args.args[0].arg
            a = [pyast.unparse(z) for z in c.args]
            rw = ctx.deref(ctx.env.get(pyast.unparse(c.func))) if pyast.unparse(c.func) in ctx.env else None
            deps_ok = len(a) == 4 and (a[2] == "stmt.depends_on" or (
                a[2] in ctx.env and isinstance(ctx.deref(ctx.env[a[2]]), VDeps7) and ctx.deref(ctx.env[a[2]]).tags == {"base"}))
            list_ok = len(a) == 4 and a[3] in ctx.env and isinstance(ctx.deref(ctx.env[a[3]]), VNewList)
            ok = (isinstance(rw, VRewriterObj) and rw.ok and not c.keywords and len(a) == 4 and a[0] == x
                  and a[1] == "stmt.condition" and deps_ok and list_ok)
            if ok:
                self.new_deps_list = ctx.deref(ctx.env[a[3]])
        if kw:
            raise Unsupported("map_expressions with keywords")
        # the guard must be out of the mapper's reach while the expressions are rewritten
        return VDrvStmt(o.guard, bool(ok) and o.guard == "True", o.deps)

    def m_frozenset(self, ctx, it, args, kw):
        a = ctx.deref(args[0])
        if isinstance(a, VNewList):
            return VDeps7({"ids-in:%d" % id(a)})
        raise Unsupported("frozenset(%r)" % (a,))

    def binop_hook(self, ctx, it, op_, a, b):
        if op_ is pyast.BitOr and isinstance(a, VDeps7) and isinstance(b, VDeps7):
            return VDeps7(a.tags | b.tags)
        return None

    def isinstance_hook(self, ctx, it, obj, names):
        if obj is self.stmt and names == ["Assign"]:
            return VBool(self.is_assign)
        if isinstance(obj, VPy) and obj.py == "<rhs>":
            return VBool(self.rhs_is_call)
        return None

    def getitem_last(self, ctx, it, base, idx, node):
        return None

    @property
    def names(self):
        return {self.rewriter_cls: VFunc(self.rewriter_cls, self.m_rewriter),
                "frozenset": VFunc("frozenset", self.m_frozenset),
                "Assign": VClass("Assign"), "Call": VClass("Call"), "CallWithKwargs": VClass("CallWithKwargs")}

    any_raise_ok = False
    raises = {"AssertionError": lambda st: []}      # the call isolator's closing sanity assert

    def ensures(self, st):
        r = st.result
        if isinstance(r, VPy):
            return [("a-statement-is-returned-unchanged-only-if-it-is-not-an-assignment(call-isolation-only)",
                     And(z3.BoolVal(r.py == "[stmt]" and self.only_assign), Not(self.is_assign)))]
        if not isinstance(r, VNewList):
            return [("returns-the-list-of-new-statements", z3.BoolVal(False))]
        last = r.items[-1] if r.items else None
        nd = getattr(self, "new_deps_list", None)
        good_last = isinstance(last, VDrvStmt)
        return [
            ("the-expression-rewriter-gets-this-list-and-the-generators-of-the-pass",
             z3.BoolVal(getattr(self, "rw_list", None) is r)),
            ("exactly-one-statement-is-appended-here-and-it-comes-last(after-everything-the-rewriter-introduced)",
             z3.BoolVal(len(r.items) == 1 and good_last)),
            ("expressions-are-rewritten-under(guard-of-the-statement, its-dependencies, a-fresh-list)-with-the-guard-out-of-reach",
             z3.BoolVal(good_last and last.mapped is True)),
            ("the-rewritten-statement-keeps-its-guard", z3.BoolVal(good_last and last.guard == "own")),
            ("the-rewritten-statement-depends-on-its-old-dependencies-and-on-every-introduced-statement-it-was-told-about",
             z3.BoolVal(good_last and nd is not None and last.deps == frozenset({"base", "ids-in:%d" % id(nd)}))),
        ]


def _subscript_last(self, ctx, it, base, idx, node):
    return None


class VNewListIndex:
    pass


def _newlist_getitem(self, it, idx, node):
    i = it.ctx.deref(idx)
    if isinstance(i, VInt) and z3.is_int_value(z3.simplify(i.t)) and z3.simplify(i.t).as_long() == -1 and self.items:
        return self.items[-1]
    raise Unsupported("index into new_statements")


VNewList.getitem = _newlist_getitem


def units():
    return [FunctionUnit(MapIf()), FunctionUnit(IsolateArgSem()), FunctionUnit(FlatAnd()),
            FunctionUnit(StmtDriver("StatementIfThenElseExpander", "ExprIfThenElseExpander")),
            FunctionUnit(StmtDriver("StatementFunctionArgumentIsolator", "ExprFunctionArgumentIsolator")),
            FunctionUnit(StmtDriver("StatementFunctionCallIsolator", "ExpressionFunctionCallIsolator", only_assign=True))] \
        + units_isolator_calls()

EXPR.classes.setdefault("LogicalAnd", FlatAnd.IS_AND)


# ---- ExprFunctionArgumentIsolator.map_call / map_call_with_kwargs ---------------------------------------------------------
class VCallNode(V):
    ty = None

    def __init__(self, npos, keys):
        self.npos, self.keys = npos, keys


class VKwItems(V):
    ty = None

    def __init__(self, keys):
        self.keys = keys


class IsolatorMapCall(FunctionContract):
    """the call is rebuilt with the same class and function; every positional argument, in order, and every keyword
    argument UNDER ITS OWN NAME is replaced by isolate_arg(that argument, the guard, the dependencies, the caller's list)"""
    prop = "C07"
    relpath = REL

    def __init__(self, method, keys):
        self.qualname = "ExprFunctionArgumentIsolator." + method
        self.keys = list(keys)                 # keyword names in the order they were written
        self.variant_name = ("keywords=" + "/".join(self.keys)) if method == "map_call_with_kwargs" else ""
        self.method = method

    def params(self, ctx):
        self.bad_call = False
        ctx.env["self"] = VObj(TObj("Isolator", {}), {"isolate_arg": VFunc("isolate_arg", self.m_iso)})
        ctx.env["expr"] = VCallNode(2, self.keys)
        ctx.env["base_condition"] = VPy("<guard>")
        ctx.env["base_deps"] = VPy("<deps>")
        ctx.env["extra_deps"] = VPy("<extra_deps>")

    def m_iso(self, ctx, it, args, kw):
        a = [getattr(ctx.deref(x), "py", "?") for x in args]
        if a[1:] != ["<guard>", "<deps>", "<extra_deps>"] or kw:
            self.bad_call = True
        return VPy("ISO(%s)" % a[0])

    def getattr_hook(self, ctx, it, obj, name):
        o = ctx.deref(obj)
        if isinstance(o, VCallNode):
            if name == "function":
                return VPy("expr.function")
            if name == "parameters":
                return VTuple([VPy("pos%d" % i) for i in range(o.npos)])
            if name == "kw_parameters":
                return VKwItems(o.keys)
        if isinstance(o, VKwItems):
            if name == "items":
                return VFunc("items", lambda ctx, it, a, k: VTuple([VTuple([VPy(k_), VPy("val_" + k_)]) for k_ in o.keys]))
            if name == "keys":
                return VFunc("keys", lambda ctx, it, a, k: VTuple([VPy(k_) for k_ in o.keys]))
            if name == "values":
                return VFunc("values", lambda ctx, it, a, k: VTuple([VPy("val_" + k_) for k_ in o.keys]))
        return None

    def schema(self, ctx, it, e):
        gen = e.generators[0]
        src = ctx.deref(it.eval(gen.iter))
        if isinstance(src, VKwItems):
            src = VTuple([VPy(k_) for k_ in src.keys])
        if not (isinstance(src, VTuple) and len(e.generators) == 1 and not gen.ifs):
            raise Unsupported("comprehension %s" % pyast.unparse(e))
        out = []
        saved = dict(ctx.env)
        try:
            for x in src.items:
                it.assign(gen.target, x)
                if isinstance(e, pyast.DictComp):
                    out.append((ctx.deref(it.eval(e.key)).py, ctx.deref(it.eval(e.value)).py))
                else:
                    out.append(ctx.deref(it.eval(e.elt)))
        finally:
            ctx.env = saved
        return VPy(("dict", tuple(out))) if isinstance(e, pyast.DictComp) else VTuple(out)

    @property
    def comprehensions(self):
        from .c16 import _comprehensions_of
        return {pyast.unparse(c): self.schema for c in _comprehensions_of(REL, self.qualname)}

    def m_sorted(self, ctx, it, args, kw):
        v = ctx.deref(args[0])
        if isinstance(v, VKwItems):
            v = VTuple([VPy(k_) for k_ in v.keys])
        if not isinstance(v, VTuple) or kw:
            raise Unsupported("sorted(%r)" % (v,))
        return VTuple(sorted(v.items, key=lambda x: str(ctx.deref(x.items[0]).py) if isinstance(x, VTuple) else str(x.py)))

    def m_zip(self, ctx, it, args, kw):
        xs = []
        for a in args:
            v = ctx.deref(a)
            if isinstance(v, VKwItems):
                v = VTuple([VPy(k_) for k_ in v.keys])
            if not isinstance(v, VTuple):
                raise Unsupported("zip(%r)" % (v,))
            xs.append(v.items)
        return VTuple([VTuple(list(t)) for t in zip(*xs)])

    def m_idict(self, ctx, it, args, kw):
        v = ctx.deref(args[0])
        if isinstance(v, VPy) and isinstance(v.py, tuple) and v.py[0] == "dict":
            return v
        if isinstance(v, VTuple):       # pairs
            return VPy(("dict", tuple((ctx.deref(p.items[0]).py, ctx.deref(p.items[1]).py) for p in v.items)))
        raise Unsupported("immutabledict(%r)" % (v,))

    def m_type(self, ctx, it, args, kw):
        a = ctx.deref(args[0])

        def construct(ctx2, it2, a2, k2):
            return VPy(("rebuilt", isinstance(a, VCallNode), tuple(ctx2.deref(x) for x in a2)))
        return VClass("type(expr)", construct)

    names = property(lambda self: {"sorted": VFunc("sorted", self.m_sorted), "zip": VFunc("zip", self.m_zip),
                                   "immutabledict": VFunc("immutabledict", self.m_idict), "type": VFunc("type", self.m_type),
                                   "tuple": VFunc("tuple", lambda ctx, it, a, k: ctx.deref(a[0])),
                                   "dict": VFunc("dict", self.m_idict)})

    def ensures(self, st):
        r = st.result
        B = z3.BoolVal
        if not (isinstance(r, VPy) and isinstance(r.py, tuple) and r.py[0] == "rebuilt" and r.py[1]):
            return [("the-call-is-rebuilt-with-its-own-class", B(False))]
        parts = r.py[2]
        fn = getattr(parts[0], "py", None) if parts else None
        pos = tuple(getattr(x, "py", None) for x in parts[1].items) if len(parts) > 1 and isinstance(parts[1], VTuple) else None
        out = [("the-call-is-rebuilt-with-its-own-class-and-function", B(fn == "expr.function")),
               ("every-positional-argument-is-isolated-in-place", B(pos == ("ISO(pos0)", "ISO(pos1)"))),
               ("isolate_arg-always-gets-the-guard-the-dependencies-and-the-caller's-list", B(not self.bad_call))]
        if self.method == "map_call_with_kwargs":
            kwd = dict(parts[2].py[1]) if len(parts) > 2 and isinstance(parts[2], VPy) and isinstance(parts[2].py, tuple) else None
            out.append(("every-keyword-argument-is-isolated-under-its-own-name",
                        B(kwd == {k_: "ISO(val_%s)" % k_ for k_ in self.keys})))
        else:
            out.append(("nothing-else-is-passed", B(len(parts) == 2)))
        return out


def units_isolator_calls():
    return [FunctionUnit(IsolatorMapCall("map_call", [])),
            FunctionUnit(IsolatorMapCall("map_call_with_kwargs", ["b", "a"])),
            FunctionUnit(IsolatorMapCall("map_call_with_kwargs", ["k"])),
            FunctionUnit(IsolatorMapCall("map_call_with_kwargs", ["c", "a", "b"]))]
