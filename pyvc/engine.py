"""pyvc core: symbolic execution of a Python function body (read from /repo)
into named proof obligations.

Direct-style evaluator with re-execution: a path is a sequence of branch
decisions; `Ctx.branch` follows the prescribed prefix and schedules the
alternatives.  Loops are cut at their invariant.  Calls go through contract
models only.
"""
import ast
import z3

from .values import *  # noqa
from . import values as V_


class PathEnd(Exception):
    """the current path stops here (after a loop-body arm, or infeasible)"""


class Signal(Exception):
    pass


class ReturnSig(Signal):
    def __init__(self, value):
        self.value = value


class RaiseSig(Signal):
    def __init__(self, exc):
        self.exc = exc


class BreakSig(Signal):
    pass


class ContinueSig(Signal):
    pass


BUILTIN_EXC = {
    "BaseException": [],
    "Exception": ["BaseException"],
    "ValueError": ["Exception"],
    "TypeError": ["Exception"],
    "KeyError": ["LookupError"],
    "IndexError": ["LookupError"],
    "LookupError": ["Exception"],
    "AssertionError": ["Exception"],
    "AttributeError": ["Exception"],
    "NotImplementedError": ["RuntimeError"],
    "RuntimeError": ["Exception"],
    "StopIteration": ["Exception"],
    "NameError": ["Exception"],
    "ZeroDivisionError": ["ArithmeticError"],
    "ArithmeticError": ["Exception"],
}


class Obligation:
    def __init__(self, name, hyps, goal, line=None, note=None, kind="proof"):
        self.name = name
        self.hyps = list(hyps)
        self.goal = goal
        self.line = line
        self.note = note
        self.kind = kind      # "proof" | "unreachable"

    def key(self):
        return self.name


class Exit:
    def __init__(self, kind, value, snapshot, pc, line):
        self.kind = kind      # "return" | "raise"
        self.value = value
        self.snapshot = snapshot
        self.pc = pc
        self.line = line


class St:
    """read-only view of a program state for contract lambdas"""

    def __init__(self, env, heap, ghost, entry=None, old=None, extra=None):
        self._env = env
        self._heap = heap
        self._ghost = ghost
        self.entry = entry
        self.old = old
        self._extra = extra or {}

    def _deref(self, v):
        while isinstance(v, VRef):
            v = self._heap[v.loc]
        return v

    def __getattr__(self, name):
        if name.startswith("_"):
            raise AttributeError(name)
        if name in self._extra:
            return self._extra[name]
        if name in self._env:
            return self._deref(self._env[name])
        raise Unsupported("the contract refers to program variable %r, which does not exist in this state "
                          "(renamed or removed in the source?)" % name)

    def has(self, name):
        return name in self._env or name in self._extra

    def field(self, obj, name):
        o = getattr(self, obj)
        return self._deref(o.fields[name])

    def g(self, name):
        return self._ghost[name]

    def loop(self, j):
        """iteration ghosts ($proc, $i, $S, $x) of (enclosing) loop j"""
        return self._extra["$loops"][j]


class GhostDict(dict):
    """ghost state of one path.  Inside a loop body a ghost may only be updated if the loop havocs it
    (`havoc_ghosts` in the loop spec): otherwise the invariant would be checked from a stale value."""

    def __init__(self, ctx):
        super().__init__()
        self._ctx = ctx

    def __setitem__(self, name, value):
        for allowed, what in getattr(self._ctx, "ghost_guards", []):
            if name in self and name not in allowed:
                raise Unsupported("engine frame check: %s updates ghost %r that the loop does not havoc "
                                  "(add it to havoc_ghosts in the contract)" % (what, name))
        super().__setitem__(name, value)


class Ctx:
    """one execution path"""

    def __init__(self, engine, prefix):
        self.engine = engine
        self.prefix = list(prefix)
        self.taken = []
        self.pc = []
        self.env = {}
        self.heap = {}
        self.views = {}      # loc -> (parent_loc, key term) write-through
        self.ghost = GhostDict(self)
        self.obligations = []
        self.nloc = 0
        self.old = None
        self.loop_entry = {}
        self.cur_line = None
        self.events = []
        self.trace = []

    # ---- heap ----------------------------------------------------------
    def alloc(self, value, view=None):
        loc = self.nloc
        self.nloc += 1
        self.heap[loc] = value
        if view is not None:
            self.views[loc] = view
        return VRef(loc)

    def deref(self, v):
        while isinstance(v, VRef):
            v = self.heap[v.loc]
        return v

    def check_write(self, loc):
        for allowed, nloc0, what in getattr(self, "write_guards", []):
            if loc < nloc0 and loc not in allowed:
                raise Unsupported("engine frame check: %s modifies heap cell %d that was not havocked "
                                  "(add it to call_modifies / havoc_extra in the contract)" % (what, loc))

    def store(self, ref, value):
        self.check_write(ref.loc)
        self.heap[ref.loc] = value
        if ref.loc in self.views:
            ploc, key, kind = self.views[ref.loc]
            parent = self.heap[ploc]
            if kind == "dict":
                newval = z3.If(z3.Select(parent.dom, key),
                               z3.Store(parent.val, key, _as_term(value)),
                               parent.val)
                self.store(VRef(ploc), VDict(parent.ty, parent.dom, newval))
            elif kind == "dict-present":
                self.store(VRef(ploc), VDict(parent.ty, parent.dom,
                                             z3.Store(parent.val, key, _as_term(value))))
            else:
                raise Unsupported("view kind %s" % kind)

    def snapshot(self):
        return St(dict(self.env), dict(self.heap), dict(self.ghost), old=self.old)

    # ---- path condition ------------------------------------------------
    def assume(self, f):
        if isinstance(f, bool):
            f = z3.BoolVal(f)
        self.pc.append(f)

    def oblige(self, name, goal, note=None):
        if isinstance(goal, bool):
            goal = z3.BoolVal(goal)
        if z3.is_true(z3.simplify(goal)):
            # still counted: trivially true obligations are real obligations
            pass
        self.obligations.append(Obligation(
            name, self.pc, goal, line=self.cur_line, note=note))

    def feasible(self, cond):
        eng = self.engine
        qf_ax = [a for a in eng.axioms if not _has_quantifier(a)]
        qf_pc = [f for f in self.pc if not _has_quantifier(f)]
        s = z3.Solver()
        s.set("timeout", eng.prune_timeout_ms)
        for f in qf_ax + qf_pc:
            s.add(f)
        s.add(cond)
        r = s.check()
        if r == z3.unsat:
            return False
        if not eng.prune_quantified:
            return True
        if len(qf_ax) == len(eng.axioms) and len(qf_pc) == len(self.pc):
            return True
        s = z3.Solver()
        s.set("timeout", eng.prune_timeout_ms)
        for ax in eng.axioms:
            s.add(ax)
        for f in self.pc:
            s.add(f)
        s.add(cond)
        return s.check() != z3.unsat

    def branch(self, cond, tag=""):
        """returns a Python bool; forks the path when both sides are feasible"""
        if isinstance(cond, bool):
            return cond
        c = z3.simplify(cond)
        if z3.is_true(c):
            return True
        if z3.is_false(c):
            return False
        i = len(self.taken)
        if i < len(self.prefix):
            d = self.prefix[i]
        else:
            ft = self.feasible(cond)
            ff = self.feasible(z3.Not(cond))
            if ft and ff:
                self.engine.schedule(self.taken + [False])
                d = True
            elif ft:
                d = True
            elif ff:
                d = False
            else:
                raise PathEnd()
        self.taken.append(d)
        self.assume(cond if d else z3.Not(cond))
        return d

    def choose(self, n, tag=""):
        """n-way non-deterministic choice (no condition attached)"""
        for k in range(n - 1):
            i = len(self.taken)
            if i < len(self.prefix):
                d = self.prefix[i]
            else:
                self.engine.schedule(self.taken + [False])
                d = True
            self.taken.append(d)
            if d:
                return k
        return n - 1

    def raise_(self, cls, *args, **payload):
        raise RaiseSig(VExc(cls, args, payload))

    def fresh(self, ty, base="v"):
        v = ty.fresh(base)
        for f in self.engine.wf(v):
            self.assume(f)
        return v


_q_cache = {}


def _has_quantifier(f):
    # z3 recycles AST ids once a term is freed: the cache keeps the term alive so that its id stays its own
    key = f.get_id()
    if key in _q_cache:
        return _q_cache[key][1]
    todo = [f]
    seen = set()
    res = False
    while todo:
        t = todo.pop()
        if t.get_id() in seen:
            continue
        seen.add(t.get_id())
        if z3.is_quantifier(t):
            res = True
            break
        todo.extend(t.children())
    _q_cache[key] = (f, res)
    return res


def _as_term(v):
    if isinstance(v, (VInt, VBool, VStr, VElem, VSet, VCount)):
        return v.t
    raise Unsupported("value %r has no single term" % (v,))


class Engine:
    """Symbolic execution of one function under one contract."""

    def __init__(self, fn_node, contract):
        self.fn = fn_node
        self.contract = contract
        self.axioms = list(getattr(contract, "axioms", []) or [])
        self.prune_timeout_ms = 400
        self.prune_quantified = getattr(contract, "prune_quantified", True)
        self.worklist = []
        self.obligations = []
        self.exits = []
        self.npaths = 0
        self.loops = self._index_loops(fn_node)
        self.max_paths = getattr(contract, "max_paths", 4000)
        self.log = []

    def wf(self, v):
        return []

    def schedule(self, prefix):
        self.worklist.append(list(prefix))

    def _index_loops(self, fn):
        loops = []

        def visit(node):
            for child in ast.iter_child_nodes(node):
                if isinstance(child, (ast.FunctionDef, ast.Lambda, ast.ClassDef)):
                    continue
                if isinstance(child, (ast.For, ast.While)):
                    loops.append(child)
                visit(child)
        visit(fn)
        return {id(n): i for i, n in enumerate(loops)}, loops

    def run(self):
        from .interp import Interp
        self.worklist = [[]]
        self.ghost_fired = set()
        while self.worklist:
            prefix = self.worklist.pop()
            self.npaths += 1
            if self.npaths > self.max_paths:
                raise Unsupported("path explosion (> %d paths)" % self.max_paths)
            ctx = Ctx(self, prefix)
            it = Interp(ctx, self.contract, self)
            try:
                it.run_function(self.fn)
            except PathEnd:
                pass
            self.obligations.extend(ctx.obligations)
        # every ghost update of the contract must be anchored at a statement that exists (and is reached) in the
        # current source: otherwise the ghost state silently stops tracking the code (undecided, never a verdict)
        for when, attr in (("before", "ghost_before"), ("after", "ghost_updates")):
            for key in (getattr(self.contract, attr, None) or {}):
                if (when, key) not in self.ghost_fired and not getattr(self.contract, "optional_anchors", False):
                    raise Unsupported("ghost update anchored at %r: no such statement is executed in the current "
                                      "source (renamed or removed?)" % key)
        return self.obligations
