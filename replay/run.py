"""Native harness: runs under /venv/bin/python with the real dagrt on sys.path.

usage: run.py <PROP> bounded|replay   (JSON payload on stdin, JSON result on the last stdout line)
"""
import importlib
import json
import os
import sys
import time

HERE = os.path.dirname(os.path.abspath(__file__))
sys.path.insert(0, os.path.dirname(HERE))


def main():
    prop, mode = sys.argv[1], sys.argv[2]
    payload = json.loads(sys.stdin.read() or "{}")
    mod = importlib.import_module("replay.oracles." + prop.lower())
    t0 = time.time()
    real_stdout = sys.stdout
    sys.stdout = sys.stderr      # the code under test prints; keep stdout clean
    try:
        if mode == "bounded":
            out = mod.bounded(payload)
        elif mode == "replay":
            out = mod.replay(payload["input"])
        else:
            raise SystemExit("unknown mode " + mode)
    finally:
        sys.stdout = real_stdout
    out["native_wall_s"] = round(time.time() - t0, 2)
    print(json.dumps(out, default=str))


if __name__ == "__main__":
    main()
