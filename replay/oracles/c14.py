"""Native oracle for C14 (runs the real dagrt.data)."""
import itertools
import random

from dagrt import data as D
from dagrt import language as lang
from dagrt.function_registry import base_function_registry, register_function
from pymbolic import var


def kinds_universe():
    return [None, D.Boolean(), D.Integer(), D.Scalar(True), D.Scalar(False),
            D.Array(True), D.Array(False), D.UserType("a"), D.UserType("b"), D.UserType("A")]


def enc(k):
    if k is None:
        return ["None"]
    return [type(k).__name__] + list(k.__getinitargs__())


def dec(e):
    if e[0] == "None":
        return None
    return getattr(D, e[0])(*e[1:])


def U(a, b):
    try:
        return ("ok", D.unify(a, b))
    except Exception as ex:       # undefined
        return ("undef", type(ex).__name__)


def law_failure(law, a, b, c=None):
    """returns a description if the law fails on the real unify, else None"""
    if law == "idempotent":
        r = U(a, a)
        if r[0] == "ok" and r[1] != a:
            return "unify(a,a)=%r != a=%r" % (r[1], a)
    elif law == "commutative":
        r1, r2 = U(a, b), U(b, a)
        if r1[0] == "ok" and r1 != r2:
            return "unify(a,b)=%r but unify(b,a)=%r" % (r1, r2)
    elif law.startswith("associative"):
        ab = U(a, b)
        if ab[0] == "ok":
            l = U(ab[1], c)
            if l[0] == "ok":
                bc = U(b, c)
                r = U(a, bc[1]) if bc[0] == "ok" else bc
                if r != l:
                    return "(a.b).c=%r but a.(b.c)=%r" % (l, r)
        bc = U(b, c)
        if bc[0] == "ok":
            r = U(a, bc[1])
            if r[0] == "ok":
                ab = U(a, b)
                l = U(ab[1], c) if ab[0] == "ok" else ab
                if r != l:
                    return "a.(b.c)=%r but (a.b).c=%r" % (r, l)
    return None


# ---- order independence of the inferred table ---------------------------------

def registry():
    freg = base_function_registry
    for name, kind in [("int", D.Integer()), ("real", D.Scalar(True)), ("cplx", D.Scalar(False)),
                       ("arr", D.Array(True)), ("carr", D.Array(False)),
                       ("uta", D.UserType("a")), ("utb", D.UserType("b"))]:
        freg = register_function(freg, "<func>" + name, ("x",), default_dict={"x": 0},
                                 result_names=("result",), result_kinds=(kind,))
    return freg


SRC = ["int", "real", "cplx", "arr", "carr", "uta", "utb"]


def random_program(rng, nvars=4, nstmts=6, nphases=2):
    """list of phases; each a list of statement descriptors (JSON-able)"""
    names = ["v%d" % i for i in range(nvars)] + ["<state>s", "<p>q"]
    phases = []
    for p in range(nphases):
        stmts = []
        defined = []
        for i in range(rng.randint(1, nstmts)):
            tgt = rng.choice(names)
            form = rng.choice(["call", "call", "const", "sum", "prod", "copy", "cmp", "sub"])
            if form in ("sum", "prod", "copy", "cmp", "sub") and defined and rng.random() < 0.8:
                pick = lambda: rng.choice(defined)   # noqa
                if form in ("sum", "prod"):
                    stmts.append([form, tgt, pick(), pick()])
                else:
                    stmts.append([form, tgt, pick()])
                defined.append(tgt)
                continue
            defined.append(tgt)
            if form == "call":
                stmts.append(["call", tgt, rng.choice(SRC)])
            elif form == "sum":
                stmts.append(["sum", tgt, rng.choice(names), rng.choice(names)])
            elif form == "prod":
                stmts.append(["prod", tgt, rng.choice(names), rng.choice(names)])
            elif form == "copy":
                stmts.append(["copy", tgt, rng.choice(names)])
            elif form == "cmp":
                stmts.append(["cmp", tgt, rng.choice(names)])
            elif form == "sub":
                stmts.append(["sub", tgt, rng.choice(names)])
            else:
                stmts.append(["const", tgt])
        phases.append(stmts)
    return phases


def build(phases_desc):
    phases = []
    n = 0
    for stmts in phases_desc:
        out = []
        for s in stmts:
            n += 1
            sid = "s%d" % n
            if s[0] == "call":
                out.append(lang.AssignFunctionCall(assignees=(s[1],), function_id="<func>" + s[2],
                                                   parameters=(), id=sid, depends_on=frozenset()))
            else:
                if s[0] == "sum":
                    e = var(s[2]) + var(s[3])
                elif s[0] == "prod":
                    e = var(s[2]) * var(s[3])
                elif s[0] == "copy":
                    e = var(s[2])
                elif s[0] == "cmp":
                    from pymbolic.primitives import Comparison
                    e = Comparison(var(s[2]), "<", 1)
                elif s[0] == "sub":
                    e = var(s[2])[0]
                else:
                    e = 1.5
                out.append(lang.Assign(assignee=s[1], assignee_subscript=(), expression=e,
                                       id=sid, depends_on=frozenset()))
        phases.append(out)
    return phases


def infer(phases_desc, perm_seed, one_shot=False):
    rng = random.Random(perm_seed)
    phases = build(phases_desc)
    names = ["ph%d" % i for i in range(len(phases))]
    order = list(range(len(phases)))
    if perm_seed:
        rng.shuffle(order)
        for p in phases:
            rng.shuffle(p)
    finder = D.SymbolKindFinder(registry())
    try:
        # "a list of iterables": a phase may be handed in as a one-shot iterator (the Fortran generator does)
        tbl = finder([names[i] for i in order], [(iter(phases[i]) if one_shot else phases[i]) for i in order])
    except Exception as ex:
        return ("fail", type(ex).__name__)
    per = {pn: dict(sorted((k, repr(v)) for k, v in t.items())) for pn, t in tbl.per_phase_table.items()
           if t}
    return ("ok", dict(sorted((k, repr(v)) for k, v in tbl.global_table.items())), per)


def conflicting_kinds(phases_desc):
    """fingerprint of known finding D5: some table entry is `set` with two kinds
    whose unification is undefined (observed by wrapping the real unify)"""
    hit = []
    real = D.unify

    def spy(a, b):
        try:
            return real(a, b)
        except Exception:
            hit.append((a, b))
            raise
    D.unify = spy
    try:
        infer(phases_desc, 0)
        infer(phases_desc, 1)
        infer(phases_desc, 2)
    finally:
        D.unify = real
    # only failures inside SymbolKindTable.set matter, but any failed join marks the program
    return bool(hit)


def order_failure(phases_desc, perms=(1, 2, 3)):
    base = infer(phases_desc, 0)
    for s in perms:
        other = infer(phases_desc, s)
        if base[0] == "ok" and other[0] == "ok" and base != other:
            return "table differs between presentation orders: %r vs %r" % (base[1:], other[1:])
    return None


FINGERPRINTS = {"D5_conflicting_kinds_first_wins": lambda inp: inp.get("kind") == "order" and conflicting_kinds(inp["phases"])}


def replay(inp):
    if inp.get("kind") == "law":
        d = law_failure(inp["law"], dec(inp["a"]), dec(inp["b"]), dec(inp["c"]) if inp.get("c") else None)
        return {"fails": d is not None, "detail": d}
    if inp.get("kind") == "order":
        d = order_failure(inp["phases"], perms=tuple(range(1, 9)))
        return {"fails": d is not None, "detail": d}
    if inp.get("kind") == "dagorder":
        d = dag_order_failure(inp["phases"])
        return {"fails": d is not None, "detail": d}
    if inp.get("kind") == "order2":
        d = order2_failure(inp["phases_a"], inp["phases_b"], one_shot=bool(inp.get("one_shot")))
        return {"fails": d is not None, "detail": d}
    return {"error": "unknown input kind"}


def infer_via_dag(phases_desc, order):
    """the public entry point infer_kinds on a DAGCode whose phases dict is filled in the given order"""
    phases = build(phases_desc)
    names = ["ph%d" % i for i in range(len(phases))]
    d = {}
    for i in order:
        d[names[i]] = lang.ExecutionPhase(name=names[i], next_phase=names[i], statements=phases[i])
    dag = lang.DAGCode(phases=d, initial_phase=names[0])
    try:
        tbl = D.infer_kinds(dag, function_registry=registry())
    except Exception as ex:
        return ("fail", type(ex).__name__)
    per = {pn: dict(sorted((k, repr(v)) for k, v in t.items())) for pn, t in tbl.per_phase_table.items() if t}
    return ("ok", dict(sorted((k, repr(v)) for k, v in tbl.global_table.items())), per)


def dag_order_failure(phases_desc):
    n = len(phases_desc)
    base = infer_via_dag(phases_desc, list(range(n)))
    for order in itertools.permutations(range(n)):
        other = infer_via_dag(phases_desc, list(order))
        if base[0] == "ok" and other[0] == "ok" and base != other:
            return "infer_kinds: table differs with the order of the phases dict %s: %r vs %r" % (list(order), base[1:], other[1:])
        if base[0] != other[0]:
            return "infer_kinds %s for one order of the phases dict and %s for %s" % (base, other, list(order))
    return None


def order2_failure(desc_a, desc_b, one_shot=False):
    """the same statements presented in two explicit orders (the second one as one-shot iterators if asked)"""
    a, b = infer(desc_a, 0), infer(desc_b, 0, one_shot=one_shot)
    if a[0] == "ok" and b[0] == "ok" and a != b:
        return "table differs between two presentation orders of the same statements: %r vs %r" % (a[1:], b[1:])
    if a[0] != b[0]:
        return "inference %s in one presentation order and %s in another" % (a, b)
    return None


REFINEMENTS = [("real", "cplx"), ("int", "real"), ("int", "cplx"), ("real", "arr"), ("arr", "carr"), ("real", "carr"),
               ("int", "arr")]


def refinement_chains(max_len):
    """v0 gets two unifiable kinds (the second refines the first); v1 <- v0, v2 <- v1, ...: the refinement has to
    travel down the chain whatever the presentation order, which takes one sweep per link in adverse orders"""
    for lo, hi in REFINEMENTS:
        for n in range(1, max_len + 1):
            stmts = [["call", "v0", lo], ["call", "v0", hi]]
            for i in range(n):
                stmts.append([("copy", "sum", "prod")[i % 3], "v%d" % (i + 1), "v%d" % i] + (["v%d" % i] if i % 3 else []))
            yield stmts


def bounded(payload):
    budget = payload.get("budget", {})
    seed = payload.get("seed", 0)
    rng = random.Random(seed)
    failures, known_hits, samples = [], [], []
    known_fps = {e.get("fingerprint") for e in payload.get("known", [])}
    evals = 0
    distinct = set()
    Ks = kinds_universe()
    for a, b in itertools.product(Ks, Ks):
        for law in ("idempotent", "commutative"):
            evals += 1
            d = law_failure(law, a, b)
            distinct.add((law, repr(a), repr(b)))
            if d:
                failures.append({"oracle": law, "input": {"kind": "law", "law": law, "a": enc(a), "b": enc(b)},
                                 "detail": d})
    for a, b, c in itertools.product(Ks, Ks, Ks):
        evals += 1
        distinct.add(("assoc", repr(a), repr(b), repr(c)))
        d = law_failure("associative", a, b, c)
        if d:
            failures.append({"oracle": "associative",
                             "input": {"kind": "law", "law": "associative", "a": enc(a), "b": enc(b), "c": enc(c)},
                             "detail": d})
    samples.append({"law": "associative", "a": enc(Ks[2]), "b": enc(Ks[3]), "c": enc(Ks[7])})
    nprog = budget.get("programs", 150)
    d5 = 0
    nontrivial = 0
    for i in range(nprog):
        desc = random_program(rng)
        evals += 1
        d = order_failure(desc)
        base = infer(desc, 0)
        if base[0] == "ok":
            nontrivial += 1
            distinct.add(("prog", repr(desc)))
        if i < 2:
            samples.append({"program": desc, "result": base[0]})
        if d:
            if "D5_conflicting_kinds_first_wins" in known_fps and conflicting_kinds(desc):
                d5 += 1
                continue
            failures.append({"oracle": "order-independence", "input": {"kind": "order", "phases": desc},
                             "detail": d})
    # refinement chains in every presentation order (a fixed point must be reached from each of them)
    nchain = 0
    for stmts in refinement_chains(budget.get("chain_len", 3)):
        perms = list(itertools.permutations(range(len(stmts))))
        for pi, perm in enumerate(perms):
            if len(perms) > 130 and (pi + seed) % 5:
                continue
            evals += 1
            nchain += 1
            other = [stmts[i] for i in perm]
            d = order2_failure([stmts], [other])
            if d and sum(1 for f in failures if f["oracle"] == "order-independence(chain)") < 3:
                failures.append({"oracle": "order-independence(chain)",
                                 "input": {"kind": "order2", "phases_a": [stmts], "phases_b": [other]}, "detail": d})
            # the same order once more, each phase handed in as a one-shot iterator
            evals += 1
            d = order2_failure([stmts], [other], one_shot=True)
            if d and sum(1 for f in failures if f["oracle"] == "order-independence(chain, one-shot iterables)") < 3:
                failures.append({"oracle": "order-independence(chain, one-shot iterables)",
                                 "input": {"kind": "order2", "phases_a": [stmts], "phases_b": [other], "one_shot": True},
                                 "detail": d})
    distinct.add(("chains", nchain))
    # infer_kinds on DAGs with 2-3 phases whose local variables have different kinds, phases dict filled in every order
    ndag = 0
    for desc in ([[["call", "v0", "arr"], ["copy", "v1", "v0"]], [["call", "v0", "real"], ["copy", "v1", "v0"]]],
                 [[["call", "v0", "cplx"]], [["call", "v0", "uta"], ["copy", "v2", "v0"]], [["call", "v0", "int"]]],
                 [[["call", "<state>s", "real"], ["call", "v3", "carr"]], [["call", "v3", "real"], ["sum", "v1", "v3", "<state>s"]]],
                 # the same per-step name with kinds that do NOT unify (a flag in one phase, a number in the other; two user types)
                 [[["call", "v0", "real"], ["cmp", "v1", "v0"]], [["call", "v0", "real"], ["copy", "v1", "v0"]]],
                 [[["call", "v0", "uta"]], [["call", "v0", "utb"]]],
                 [[["call", "v0", "real"], ["cmp", "v1", "v0"]], [["call", "v1", "arr"]], [["call", "v1", "uta"], ["copy", "v2", "v1"]]]):
        evals += 1
        ndag += 1
        d = dag_order_failure(desc)
        if d:
            failures.append({"oracle": "order-independence(phases dict)", "input": {"kind": "dagorder", "phases": desc}, "detail": d})
    distinct.add(("dagorder", ndag))
    for e in payload.get("known", []):
        r = replay(e["native"])
        if r.get("fails"):
            known_hits.append("%s: %s" % (e["id"], e["what"]))
    return {"evaluations": evals, "distinct_nontrivial": len(distinct),
            "rule": "exhaustive: 10 kinds (None, Boolean, Integer, Scalar x2, Array x2, UserType a/b/A), all pairs for "
                    "idempotence/commutativity and all triples for associativity on the real unify; plus %d seeded "
                    "random programs (<=2 phases, <=6 assignments over 6 names, 7 fixed-kind sources) inferred in 4 "
                    "presentation orders; plus refinement chains (a variable assigned two unifiable kinds, copied down a "
                    "chain of <=3 links; 7 kind pairs) in all (<=120) or every 5th (720) presentation orders, each as lists and as one-shot iterators; distinct = "
                    "distinct argument tuples / programs on which inference succeeded" % nprog,
            "bound": "kind universe with 3 user-type identifiers (two differing in case only); programs <= 12 statements",
            "samples": samples, "failures": failures[:20], "known_hits": known_hits,
            "parts": {"law_cases": len(Ks) ** 2 * 2 + len(Ks) ** 3, "programs": nprog, "refinement_chain_orders": nchain, "programs_inferred": nontrivial,
                      "programs_with_known_D5_fingerprint": d5},
            "exhaustive": False}
