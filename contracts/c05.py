"""C05 — lowering a phase to structured code keeps order, guards and loops.

Functions under contract (read from /repo/dagrt/codegen/dag_ast.py on every run):
  create_ast_from_phase (DFS loop + wrapping loop), loop_to_ast_node, conditional_to_ast,
  statement_to_ast
"""
import z3
from z3 import And, Or, Not, Implies, ForAll, Select, Store, If, IntSort, BoolSort

from pyvc.values import *  # noqa
from pyvc.contracts import FunctionContract, FunctionUnit, LemmaUnit, call_by_contract
from pyvc.poslist import TPosList, VPosList
from .dagspec import *  # noqa
from .astspec import (Node, NodeList, Cond, LoopH, Trace, Event, trk, trlk, ev, K, allk, same_trace, loop_trace,
                      NODE, COND, NODELIST, VNodeList, NODE_CLASSES, LVAR, BEXPR, definitional_axioms,
                      lemma_instances_app, unfold_list, unfold_node, LVar, BExpr)
from .c04 import DOM, IDS, num, dep, graph_axioms, ID2STMT

def _empty_only(a, k):
    """set() - the model is the empty set; set(<something>) is another value"""
    if a or k:
        raise Unsupported("set(...) with arguments")
    return None


PROP = "C05"
REL = "dagrt/codegen/dag_ast.py"

ORDER = TPosList(ID)
IDLIST = TList(ID)

# ---- statement-level spec vocabulary --------------------------------------------------
HList = z3.Datatype("HList")           # statement.loops: list of (identifier, start, end)
HList.declare("HNil")
HList.declare("HCons", ("hhead", LoopH), ("htail", HList))
HList = HList.create()

s_cond = z3.Function("s_cond", Stmt, Cond)               # statement.condition  (CTrue for `True`)
s_loops = z3.Function("s_loops", Stmt, HList)            # statement.loops
is_assign = z3.Function("is_assign", Stmt, BoolSort())   # isinstance(statement, Assign)
with_cond_true = z3.Function("with_cond_true", Stmt, Stmt)    # statement.copy(condition=True)
with_loops = z3.Function("with_loops", Stmt, HList, Stmt)     # statement.copy(loops=...)

STR = z3.Function("STR", Stmt, Trace, Trace)   # spec: statement inside its loops, guarded, then k
GTR = z3.Function("GTR", Stmt, Trace, Trace)   # spec: guarded statement, then k


def copy_axioms():
    s = z3.Const("s", Stmt)
    l = z3.Const("l", HList)
    return [
        ForAll([s], And(s_cond(with_cond_true(s)) == Cond.CTrue,
                        s_loops(with_cond_true(s)) == s_loops(s),
                        is_assign(with_cond_true(s)) == is_assign(s)), patterns=[with_cond_true(s)]),
        ForAll([s, l], And(s_loops(with_loops(s, l)) == l,
                           s_cond(with_loops(s, l)) == s_cond(s),
                           is_assign(with_loops(s, l)) == is_assign(s)), patterns=[with_loops(s, l)]),
    ]


def spec_unfold(s):
    """defining equations of the property-level trace spec at statement s (all continuations):
    STR = the guard around everything, GTR (here: LTR) = the statement inside its declared loops,
    outermost loop first"""
    k = z3.Const("k", Trace)
    T, E = Trace, Event
    h = HList.hhead(s_loops(s))
    looped = And(is_assign(s), HList.is_HCons(s_loops(s)))
    return [
        ForAll([k], GTR(s, k) == If(looped,
                                    loop_trace(h, lambda c: GTR(with_loops(s, HList.htail(s_loops(s))), c), k),
                                    T.TCons(E.Exec(s), k)), patterns=[GTR(s, k)]),
        ForAll([k], STR(s, k) == If(s_cond(s) != Cond.CTrue,
                                    If(ev(s_cond(s)), GTR(with_cond_true(s), k), k),
                                    GTR(s, k)), patterns=[STR(s, k)]),
    ]


class VHList(V):
    """statement.loops as an ADT list of headers"""

    def __init__(self, t):
        self.t = t
        self.ty = None

    def truth(self, it):
        return HList.is_HCons(self.t)

    def getitem(self, it, idx, node):
        if isinstance(idx, VInt) and z3.is_int_value(idx.t) and idx.t.as_long() == 0:
            if not it.ctx.branch(HList.is_HCons(self.t), "loops[0]"):
                it.ctx.raise_("IndexError")
            h = HList.hhead(self.t)
            return VTuple([LVAR.wrap(LoopH.lvar(h)), BEXPR.wrap(LoopH.lb(h)), BEXPR.wrap(LoopH.ub(h))])
        raise Unsupported("loops index")

    def slice(self, it, sl, node):
        r = _hlist_slice(it, None, self, sl, node)
        if r is None:
            raise Unsupported("slice of statement.loops")
        return r


def _slice_loops(it, base, b, sl, node):
    return None


def _stmt_copy(ctx, it, obj, args, kw):
    s = ctx.deref(obj).t
    if set(kw) == {"condition"}:
        c = ctx.deref(kw["condition"])
        if isinstance(c, VBool) and z3.is_true(c.t):
            return LSTMT.wrap(with_cond_true(s))
    if set(kw) == {"loops"}:
        l = ctx.deref(kw["loops"])
        if isinstance(l, VHList):
            return LSTMT.wrap(with_loops(s, l.t))
    raise Unsupported("statement.copy(%s)" % ",".join(kw))


LSTMT = TElem(
    "Stmt", Stmt,
    fields={
        "id": (sid, ID),
        "depends_on": (sdeps, TSet(ID)),
        "condition": (s_cond, COND),
        "loops": lambda ctx, t: VHList(s_loops(t)),
    },
    classes={"Assign": is_assign, "Nop": is_nop},
    methods={"copy": _stmt_copy},
)


class StmtFn(FunctionContract):
    prop = PROP
    relpath = REL
    prune_quantified = False
    names = dict(NODE_CLASSES)

    def __init__(self):
        self.s = z3.Const("statement", Stmt)

    axioms = property(lambda self: tuple(definitional_axioms() + copy_axioms()))

    def params(self, ctx):
        ctx.env["statement"] = LSTMT.wrap(self.s)
        for f in spec_unfold(self.s):
            ctx.assume(f)


class StatementToAst(StmtFn):
    qualname = "statement_to_ast"

    def ensures(self, st):
        return [("leaf-of-the-statement", st.result.t == Node.Leaf(self.s))]


def m_statement_to_ast(ctx, it, args, kw):
    return NODE.wrap(Node.Leaf(ctx.deref(args[0]).t))


def m_loop_to_ast_node(ctx, it, args, kw):
    s = ctx.deref(args[0]).t
    r = z3.Const(fresh_name("loop_ast"), Node)
    for f in spec_unfold(s):
        ctx.assume(f)
    ctx.assume(allk(lambda k: trk(r, k) == GTR(s, k)))
    return NODE.wrap(r)


class ConditionalToAst(StmtFn):
    qualname = "conditional_to_ast"
    names = dict(NODE_CLASSES, loop_to_ast_node=VFunc("loop_to_ast_node", m_loop_to_ast_node))

    def params(self, ctx):
        super().params(ctx)
        for f in spec_unfold(with_cond_true(self.s)):
            ctx.assume(f)

    def ensures(self, st):
        return [("guard-around-the-statement-in-its-loops", allk(lambda k: trk(st.result.t, k) == STR(self.s, k)))]


class LoopToAst(StmtFn):
    """recursive on len(statement.loops): the ForLoop nest, outermost = loops[0], around the bare leaf"""
    qualname = "loop_to_ast_node"

    def m_self(self, ctx, it, args, kw):
        s = ctx.deref(args[0]).t
        r = z3.Const(fresh_name("loop_ast"), Node)
        # induction hypothesis (decreases len(loops)): proved below that the argument has one loop less
        ctx.oblige(it.oname("recursive-call/decreases-loops"),
                   And(HList.is_HCons(s_loops(self.s)), s_loops(s) == HList.htail(s_loops(self.s))))
        for f in spec_unfold(s):
            ctx.assume(f)
        ctx.assume(allk(lambda k: trk(r, k) == GTR(s, k)))
        return NODE.wrap(r)

    names = property(lambda self: dict(NODE_CLASSES,
                                       statement_to_ast=VFunc("statement_to_ast", m_statement_to_ast),
                                       loop_to_ast_node=VFunc("loop_to_ast_node", self.m_self)))

    def ensures(self, st):
        return [("statement-inside-its-declared-loops-outermost-first",
                 allk(lambda k: trk(st.result.t, k) == GTR(self.s, k)))]


# `statement.loops[1:]`
def _hlist_slice(self, base, b, sl, node):
    if isinstance(b, VHList) and sl.upper is None and sl.step is None and sl.lower is not None:
        lo = self.ctx.deref(self.eval(sl.lower))
        if isinstance(lo, VInt) and z3.is_int_value(lo.t) and lo.t.as_long() == 1:
            # xs[1:] of a non-empty or empty list
            if self.ctx.branch(HList.is_HCons(b.t), "loops[1:]"):
                return VHList(HList.htail(b.t))
            return VHList(HList.HNil)
    return None


# ==========================================================================
OTRK = z3.Function("OTRK", IntSort(), Trace, Trace)   # spec trace of order[i:], then k


class CreateAst(FunctionContract):
    prop = PROP
    relpath = REL
    qualname = "create_ast_from_phase"
    prune_quantified = True
    forbid_set_iteration = True

    def __init__(self):
        self.sinks = z3.Const("phase_sinks", z3.ArraySort(Id, BoolSort()))
        self.phase = z3.Const("the_phase", Phase)
        self.pname = z3.Const("phase_name", PName)

    axioms = property(lambda self: tuple(definitional_axioms() + copy_axioms()))

    SORTED_N = z3.Function("sorted_n", z3.ArraySort(Id, BoolSort()), IntSort())
    SORTED_A = z3.Function("sorted_a", z3.ArraySort(Id, BoolSort()), z3.ArraySort(IntSort(), Id))
    SORTED_IX = z3.Function("sorted_ix", z3.ArraySort(Id, BoolSort()), Id, IntSort())

    def m_sorted(self, ctx, it, args, kw):
        """A-SORT: sorted(S) is a duplicate-free enumeration of S and a function of S alone"""
        S = ctx.deref(args[0])
        if not isinstance(S, VSet):
            raise Unsupported("sorted(%r)" % (S,))
        n, a = self.SORTED_N(S.t), self.SORTED_A(S.t)
        ixf = lambda e: self.SORTED_IX(S.t, e)  # noqa
        j = z3.Int("j")
        e = z3.Const("e", Id)
        ctx.assume(n >= 0)
        ctx.assume(ForAll([j], Implies(And(0 <= j, j < n), And(Select(S.t, Select(a, j)), ixf(Select(a, j)) == j))))
        ctx.assume(ForAll([e], Implies(Select(S.t, e), And(0 <= ixf(e), ixf(e) < n, Select(a, ixf(e)) == e))))
        return VList(IDLIST, n, a)

    def params(self, ctx):
        code = VObj(TObj("DAGCode", {}), {})
        ctx.env["code"] = code
        ctx.env["phase_name"] = PNAME.wrap(self.pname)

    def m_phases_getitem(self, ctx, it):
        return None

    attr_exprs = property(lambda self: {
        "phase.depends_on": lambda ctx, it: VSet(TSet(ID), self.sinks),
        "code.phases": lambda ctx, it: _PhasesDict(self.phase),
    })

    def type_of_literal(self, node):
        # [] literals: `stack` (ids), `topological_order` (position view), `main_block` (nodes)
        tgt = getattr(node, "_assigned_to", None)
        return {"stack": IDLIST, "topological_order": ORDER, "main_block": NODELIST}.get(tgt, IDLIST)

    def list_literal(self, ctx, it, e):
        if e.elts:
            raise Unsupported("list literal")
        # find the assignment target from the enclosing statement line
        name = _literal_target(it.engine.fn, e)
        ty = {"stack": IDLIST, "topological_order": ORDER, "main_block": NODELIST}.get(name)
        if ty is None:
            raise Unsupported("empty list literal assigned to %r" % name)
        if hasattr(ty, "empty"):
            return ctx.alloc(ty.empty())
        return ctx.alloc(empty_list(ty))

    def comp_statement_map(self, ctx, it, e):
        # {inst.id: inst for inst in phase.statements}: with unique ids, the map id -> statement
        return ctx.alloc(VDict(TDict(ID, LSTMT), DOM, IDS))

    comprehensions = property(lambda self: {
        "{inst.id: inst for inst in phase.statements}": self.comp_statement_map})

    def requires(self, st):
        x = z3.Const("x", Id)
        return graph_axioms() + [
            # ExecutionPhase.depends_on (SinkContract, C04)
            ("sinks-are-statements", ForAll([x], Implies(Select(self.sinks, x), Select(DOM, x)))),
        ]

    def ghosts(self, ctx):
        ctx.ghost["ep"] = z3.Const("ep0", z3.ArraySort(Id, IntSort()))
        ctx.ghost["W"] = z3.Const("W0", z3.ArraySort(Id, z3.ArraySort(Id, IntSort())))
        ctx.ghost["lw"] = self.SORTED_N(self.sinks)

    # ---- calls -------------------------------------------------------------------------
    def m_loop_to_ast(self, ctx, it, args, kw):
        s = ctx.deref(args[0]).t
        r = z3.Const(fresh_name("wrapped"), Node)
        ctx.assume(allk(lambda k: trk(r, k) == STR(s, k)))
        return NODE.wrap(r)

    def m_simplify(self, ctx, it, args, kw):
        x = ctx.deref(args[0]).t
        r = z3.Const(fresh_name("simplified"), Node)
        ctx.assume(same_trace(r, x))        # C06
        ctx.assume(Not(Node.is_Null(r)))
        return NODE.wrap(r)

    names = property(lambda self: dict(
        NODE_CLASSES, sorted=VFunc("sorted", self.m_sorted),
        conditional_to_ast=VFunc("conditional_to_ast", self.m_loop_to_ast),
        simplify_ast=VFunc("simplify_ast", self.m_simplify),
        set=VFunc("set", lambda ctx, it, a, k: _empty_only(a, k) or ctx.alloc(empty_set(TSet(ID))))))

    # ---- DFS invariant (Appendix B3) -----------------------------------------------------
    def done(self, s, x):
        return And(Select(s.visited.t, x), Not(Select(s.visiting.t, x)))

    def inv_dfs(self, s):
        Kst, V, G, O = s.stack, s.visited.t, s.visiting.t, s.topological_order
        m, j = z3.Ints("m j")
        x, d = z3.Consts("x d", Id)
        ep, W, lw = s.g("ep"), s.g("W"), s.g("lw")
        Bn, Ba = self.SORTED_N(self.sinks), self.SORTED_A(self.sinks)
        return [
            ("stack-len", Kst.n >= 0),
            ("stack-entries-are-statements", ForAll([m], Implies(And(0 <= m, m < Kst.n), Select(DOM, Select(Kst.a, m))))),
            ("order=visited-minus-visiting", ForAll([x], O.has(x) == self.done(s, x))),
            ("visiting-subset-visited", ForAll([x], Implies(Select(G, x), Select(V, x)))),
            ("visited-are-statements", ForAll([x], Implies(Select(V, x), Select(DOM, x)))),
            ("order-is-topological",
             ForAll([x, d], Implies(And(O.has(x), dep(x, d)), And(O.has(d), O.before(d, x))))),
            ("visiting-has-expansion-position",
             ForAll([x], Implies(Select(G, x), And(0 <= Select(ep, x), Select(ep, x) < Kst.n,
                                                   Select(Kst.a, Select(ep, x)) == x)))),
            ("above-a-visiting-node-everything-is-lower",
             ForAll([x, m], Implies(And(Select(G, x), Select(ep, x) < m, m < Kst.n),
                                    num(Select(Kst.a, m)) < num(x)))),
            ("deps-of-visiting-ordered-or-waiting-above",
             ForAll([x, d], Implies(And(Select(G, x), dep(x, d)),
                                    Or(O.has(d),
                                       And(Select(Select(W, x), d) > Select(ep, x), Select(Select(W, x), d) < Kst.n,
                                           Select(Kst.a, Select(Select(W, x), d)) == d))))),
            ("low-water-mark", And(0 <= lw, lw <= Kst.n, lw <= Bn)),
            ("bottom-of-stack-is-the-sorted-sinks",
             ForAll([j], Implies(And(0 <= j, j < lw), Select(Kst.a, j) == Select(Ba, j)))),
            ("popped-sinks-are-ordered",
             ForAll([j], Implies(And(lw <= j, j < Bn), O.has(Select(Ba, j))))),
            ("order-lower-bound", O.lo == 0),
        ]

    # ---- wrapping loop ------------------------------------------------------------------------
    def order_spec_unfold(self, O, i):
        """OTRK(i, k): Nop statements contribute nothing, every other statement its wrapped trace"""
        k = z3.Const("k", Trace)
        s = Select(IDS, Select(O.at, i))
        return [ForAll([k], Implies(And(O.lo <= i, i < O.hi),
                                    OTRK(i, k) == If(is_nop(s), OTRK(i + 1, k), STR(s, OTRK(i + 1, k)))),
                       patterns=[OTRK(i, k)]),
                ForAll([k], Implies(i >= O.hi, OTRK(i, k) == k), patterns=[OTRK(i, k)])]

    def inv_wrap(self, s):
        O = s.topological_order
        i = s.loop(1)["$i"].t
        return [("order-unchanged", O.same_as(s.entry.topological_order)),
                ("main_block-is-the-wrapped-prefix",
                 allk(lambda k: trlk(s.main_block.t, OTRK(i, k)) == OTRK(O.lo, k)))]

    loops = property(lambda self: {
        0: dict(shape="while stack", inv=self.inv_dfs, havoc_ghosts=["ep", "W", "lw"]),
        1: dict(shape="for top_order_id in topological_order", inv=self.inv_wrap,
                facts=lambda s: (self.order_spec_unfold(s.topological_order, s.loop(1)["$i"].t)
                                 + spec_unfold(Select(IDS, Select(s.topological_order.at, s.loop(1)["$i"].t))))),
    })

    @property
    def ghost_updates(self):
        def on_visiting_add(ctx, it):
            x = ctx.deref(ctx.env["statement"]).t
            Kst = ctx.deref(ctx.env["stack"])
            ctx.ghost["ep"] = Store(ctx.ghost["ep"], x, Kst.n - 1)

        def on_pop(ctx, it):
            Kst = ctx.deref(ctx.env["stack"])
            ctx.ghost["lw"] = If(Kst.n < ctx.ghost["lw"], Kst.n, ctx.ghost["lw"])

        def on_extend(ctx, it):
            if "statement" not in ctx.env:
                return
            x = ctx.deref(ctx.env["statement"]).t
            deps = sdeps(Select(IDS, x))
            Kst = ctx.deref(ctx.env["stack"])
            n_before = Kst.n - self.SORTED_N(deps)
            d = z3.Const("dW", Id)
            Wx = z3.Const(fresh_name("Wx"), z3.ArraySort(Id, IntSort()))
            ctx.assume(ForAll([d], Select(Wx, d) == n_before + self.SORTED_IX(deps, d)))
            ctx.ghost["W"] = Store(ctx.ghost["W"], x, Wx)

        def on_wrap_iter(ctx, it):
            pass
        return {"visiting.add(statement)": on_visiting_add, "stack.pop()": on_pop,
                "stack.extend(sorted(statement_map[statement].depends_on))": on_extend}

    def before_loop_body(self, ctx, it, k):
        pass

    def ensures(self, st):
        O = st.topological_order
        x, d = z3.Consts("x d", Id)
        return [
            ("order-is-topological", ForAll([x, d], Implies(And(O.has(x), dep(x, d)), And(O.has(d), O.before(d, x))))),
            ("order-contains-every-sink", ForAll([x], Implies(Select(self.sinks, x), O.has(x)))),
            ("order-contains-only-statements", ForAll([x], Implies(O.has(x), Select(DOM, x)))),
            ("result-executes-the-guarded-looped-order",
             allk(lambda k: trk(st.result.t, k) == OTRK(O.lo, k))),
            ("result-is-never-Null", Not(Node.is_Null(st.result.t))),
        ]


class _PhasesDict(V):
    """code.phases[phase_name]: the phase (precondition: the name is a phase of the code)"""

    def __init__(self, phase):
        self.phase = phase

    def getitem(self, it, idx, node):
        return PHASE.wrap(self.phase)


def _literal_target(fn, lit):
    import ast as pyast
    for node in pyast.walk(fn):
        if isinstance(node, pyast.Assign) and node.value is lit and isinstance(node.targets[0], pyast.Name):
            return node.targets[0].id
    return None


def units():
    # the lowering hands the tree to simplify_ast: the functions under contract for C06 are functions this
    # property depends on, so their obligations are part of this check too
    from . import c06
    return [FunctionUnit(StatementToAst()), FunctionUnit(ConditionalToAst()), FunctionUnit(LoopToAst()),
            FunctionUnit(CreateAst())] + c06.units()


LEVEL = "proof"
BOUNDED = {"quick": {"timeout_s": 60}, "thorough": {"timeout_s": 600}}
TRUSTED_BASE = [
    "A-SORT: sorted(S) is a duplicate-free enumeration of S and a function of S alone",
    "simplify_ast enters by its contract proved under C06 (same trace, result never Null)",
    "statement.copy(condition=True) / copy(loops=...) change exactly the named field (pytools Record.copy)",
    "structural induction over len(statement.loops) for loop_to_ast_node (decreases obligation proved, rule trusted)",
]
ASSUMPTIONS = [
    "precondition = postcondition of verify_code (C10): dependencies closed within the phase, a height function exists, ids unique; phase.depends_on is the sink set (C04)",
    "the dict comprehension over phase.statements yields the map id -> statement (unique ids), whatever the storage order",
    "no iteration over an unordered container is executed by create_ast_from_phase (engine check `forbid_set_iteration`): with A-SORT the result is a function of the id->statement map and the dependency sets, hence independent of storage order",
    "trace semantics: ForLoop is an opaque bracket pair around its body; a loop whose body executes nothing contributes nothing",
    "lower_node / get_statements_in_ast (the walkers consuming the tree) are NOT under deductive contract; covered by the bounded stand-in only",
]
EXPLANATION = ("The DFS loop of create_ast_from_phase is proved (13-conjunct invariant with ghost expansion positions, a waiting-position map and "
               "a low-water mark) to produce a duplicate-free order that contains every sink, only statements, and every dependency before its "
               "dependent; loop_to_ast_node / conditional_to_ast / statement_to_ast are proved against the property-level spec STR (the statement "
               "inside its declared loops, outermost first, guard innermost, Null otherwise); the wrapping loop is proved to build a block whose "
               "trace is the guarded, loop-bracketed execution of that order with Nop statements skipped; with C06 the returned tree has that trace.")
