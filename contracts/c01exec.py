"""C01 — outcome contracts of the interpreter's small exec_* methods (dagrt/exec_numpy.py).

What a statement that ends or reports a step does, as the step-loop contracts (steploop.py) assume it:
  exec_SwitchPhase  never returns: raises TransitionEvent carrying stmt.next_phase, touches no state
  exec_FailStep     never returns: raises FailStepException, touches no state
  exec_Raise        never returns: raises stmt.error_condition(stmt.error_message), touches no state
  exec_Nop          returns None, touches no state
  exec_YieldState   returns (StateComputed(t=value(stmt.time), time_id, component_id, state_component=value(stmt.expression)), [])
"""
import z3
from pyvc.values import *  # noqa
from pyvc.contracts import FunctionContract, FunctionUnit

REL = "dagrt/exec_numpy.py"


class VStmtX(V):
    ty = None


class VInterp(V):
    """self: any attribute access other than eval_mapper would be a read or write of interpreter state"""
    ty = None


class ExecOutcome(FunctionContract):
    prop = "C01"
    relpath = REL

    def __init__(self, method):
        self.method = method
        self.qualname = "NumpyInterpreter." + method

    def params(self, ctx):
        ctx.env["self"] = VInterp()
        ctx.env["stmt"] = VStmtX()
        ctx.ghost["evals"] = []

    def getattr_hook(self, ctx, it, obj, name):
        o = ctx.deref(obj)
        if isinstance(o, VStmtX):
            if name == "error_condition":
                return VFunc("error_condition", lambda ctx, it, a, k: VExc("<stmt.error_condition>", [ctx.deref(x) for x in a]))
            return VPy("stmt." + name)
        if isinstance(o, VInterp):
            if name == "eval_mapper":
                return VFunc("eval_mapper", self.m_eval)
            raise Unsupported("the method touches interpreter state: self.%s" % name)
        return None

    def setattr_hook(self, ctx, it, obj, name, v):
        if isinstance(ctx.deref(obj), VInterp):
            ctx.ghost["evals"] = ctx.ghost["evals"] + ["<write self.%s>" % name]
            return True
        return False

    def m_eval(self, ctx, it, args, kw):
        e = ctx.deref(args[0])
        ctx.ghost["evals"] = ctx.ghost["evals"] + [getattr(e, "py", "?")]
        return VPy("value(%s)" % getattr(e, "py", "?"))

    def m_exc(self, cls):
        return VFunc(cls, lambda ctx, it, a, k: VExc(cls, [ctx.deref(x) for x in a]))

    def m_state_computed(self, ctx, it, args, kw):
        return VPy(("StateComputed", tuple(sorted((n, getattr(ctx.deref(v), "py", "?")) for n, v in kw.items())), len(args)))

    names = property(lambda self: {"TransitionEvent": self.m_exc("TransitionEvent"),
                                   "FailStepException": self.m_exc("FailStepException"),
                                   "StateComputed": VFunc("StateComputed", self.m_state_computed)})
    exc_hierarchy = {"TransitionEvent": ["Exception"], "FailStepException": ["Exception"],
                     "<stmt.error_condition>": ["Exception"]}

    def list_literal(self, ctx, it, e):
        return VPy("[]" if not e.elts else "[...]")

    # ---- what each method must do ---------------------------------------------------------------------------
    def exit_obligations(self, ctx, st, kind, value):
        B = z3.BoolVal
        m = self.method
        if m in ("exec_SwitchPhase", "exec_FailStep", "exec_Raise"):
            want = {"exec_SwitchPhase": "TransitionEvent", "exec_FailStep": "FailStepException",
                    "exec_Raise": "<stmt.error_condition>"}[m]
            if kind == "return":
                return [("never-returns-normally(the-step-ends-here)", B(False))]
            args = [getattr(a, "py", None) for a in (value.args or [])]
            out = [("raises-%s" % want.strip("<>"), B(value.cls == want))]
            if m == "exec_SwitchPhase":
                out.append(("carrying-the-phase-named-by-the-statement", B(args == ["stmt.next_phase"])))
            if m == "exec_Raise":
                out.append(("built-from-the-statement's-message", B(args == ["stmt.error_message"])))
            out.append(("evaluates-nothing", B(st.g("evals") == [])))
            return out
        if kind != "return":
            return [("no-exception(%s)" % value.cls, B(False))]
        r = ctx.deref(value)
        if m == "exec_Nop":
            return [("returns-None", B(isinstance(r, VNone))), ("evaluates-nothing", B(st.g("evals") == []))]
        if m == "exec_YieldState":
            ok = (isinstance(r, VTuple) and len(r.items) == 2 and isinstance(ctx.deref(r.items[0]), VPy)
                  and isinstance(ctx.deref(r.items[1]), VPy) and ctx.deref(r.items[1]).py == "[]")
            ev = ctx.deref(r.items[0]).py if ok else None
            want = ("StateComputed", (("component_id", "stmt.component_id"), ("state_component", "value(stmt.expression)"),
                                      ("t", "value(stmt.time)"), ("time_id", "stmt.time_id")), 0)
            return [("returns-the-event-and-no-new-dependencies", B(bool(ok))),
                    ("event-carries-the-value-of-the-time-and-of-the-expression-and-the-two-ids", B(ev == want)),
                    ("evaluates-exactly-the-time-and-the-expression", B(sorted(st.g("evals")) == ["stmt.expression", "stmt.time"]))]
        return [("unknown-method", B(False))]


def units():
    return [FunctionUnit(ExecOutcome(m)) for m in
            ("exec_SwitchPhase", "exec_FailStep", "exec_Raise", "exec_Nop", "exec_YieldState")]


# ---- NumpyInterpreter.set_up --------------------------------------------------------------------------------------------
class VCtxDict(V):
    ty = None

    def __init__(self):
        self.d = {}

    def setitem(self, it, idx, v, node):
        self.d[getattr(it.ctx.deref(idx), "py", "?")] = getattr(it.ctx.deref(v), "py", "?")
        return NONE


class VUserCtx(V):
    ty = None

    def __init__(self, items):
        self.items = items


class SetUpInterp(FunctionContract):
    """set_up(t_start, dt_start, context): <t>, <dt> and every given component under <state>+its name; a name that starts
    with '<' is refused and nothing after it is stored"""
    prop = "C01"
    relpath = REL
    qualname = "NumpyInterpreter.set_up"
    raises = {"ValueError": lambda st: [("only-for-a-component-name-starting-with-<", z3.BoolVal(True))]}

    def __init__(self, keys):
        self.keys = keys
        self.variant_name = "context=" + "/".join(keys)

    def params(self, ctx):
        self.cd = VCtxDict()
        ctx.env["self"] = VObj(TObj("NumpyInterpreter", {}), {"context": self.cd})
        ctx.env["t_start"] = VPy("t_start")
        ctx.env["dt_start"] = VPy("dt_start")
        ctx.env["context"] = VUserCtx([(k, "value-of-" + k) for k in self.keys])

    def getattr_hook(self, ctx, it, obj, name):
        o = ctx.deref(obj)
        if isinstance(o, VUserCtx) and name == "items":
            return VFunc("items", lambda ctx, it, a, k: VTuple([VTuple([VPy(n), VPy(v)]) for n, v in o.items]))
        if isinstance(o, VPy) and isinstance(o.py, str) and name == "startswith":
            return VFunc(name, lambda ctx, it, a, k: VBool(o.py.startswith(ctx.deref(a[0]).py)))
        return None

    def binop_hook(self, ctx, it, op_, a, b):
        import ast as pyast
        if op_ is pyast.Add and isinstance(a, VPy) and isinstance(b, VPy):
            return VPy(str(a.py) + str(b.py))
        return None

    def exit_obligations(self, ctx, st, kind, value):
        bad = [k for k in self.keys if k.startswith("<")]
        want = {"<t>": "t_start", "<dt>": "dt_start"}
        for k in self.keys:
            if k.startswith("<"):
                break
            want["<state>" + k] = "value-of-" + k
        if kind == "return":
            return [("no-refused-name-is-accepted", z3.BoolVal(not bad)),
                    ("time-step-size-and-every-component-under-<state>+name", z3.BoolVal(self.cd.d == want))]
        return [("raises-ValueError-exactly-when-a-name-starts-with-<", z3.BoolVal(bool(bad) and value.cls == "ValueError")),
                ("what-was-stored-before-is-as-written", z3.BoolVal(self.cd.d == want))]


_old_units = units


def units():
    return _old_units() + [FunctionUnit(SetUpInterp(["y", "z"])), FunctionUnit(SetUpInterp([])), FunctionUnit(SetUpInterp(["y", "<bad"]))]
