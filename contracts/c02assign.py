"""C01 / C02 — CodeBuilder.assign: the statement recorded is the assignment that was written.

Provenance contract (python-level tags, every path is concrete about what reaches the statement constructor):
  text arguments are parsed, others taken as they are; a call on the right-hand side with no loops becomes an
  AssignFunctionCall(assignees = the names of all (plain-variable) assignees in order, function_id = the called name,
  parameters / kw_parameters = the call's); anything else an Assign(assignee name, subscript as a tuple, expression,
  loops = every (identifier, parsed start, parsed stop) in order); exactly one statement goes to _add_statement;
  ill-formed left-hand sides raise ValueError and add nothing.
"""
import ast as pyast
import z3
from pyvc.values import *  # noqa
from pyvc.contracts import FunctionContract, FunctionUnit

REL = "dagrt/language.py"
B = z3.BoolVal


class VArg(V):
    """a builder argument: text or an expression object; tag identifies it"""
    ty = None

    def __init__(self, tag, is_text, parsed=False):
        self.tag, self.is_text, self.parsed = tag, is_text, parsed

    def value_tag(self):
        return ("parse(%s)" % self.tag) if self.parsed else self.tag


class VAssignees(V):
    """the assignees argument after normalisation: a tuple of k elements"""
    ty = None

    def __init__(self, items):
        self.items = items


class VLoopsArg(V):
    """loops: None, or a list of (identifier, start, stop)"""
    ty = None

    def __init__(self, none, empty):
        self.none, self.empty = none, empty

    def is_none(self):
        return self.none

    def truth(self, it):
        return z3.And(z3.Not(self.none), z3.Not(self.empty))

    def for_loop(self, it, s, k, spec, ex):
        c = it.c

        def prologue():
            i = len(c.loop_iters)
            c.loop_iters.append(i)
            it.assign(s.target, VTuple([VPy("ident#%d" % i), VArg("start#%d" % i, z3.Bool(fresh_name("start_is_text"))),
                                        VArg("stop#%d" % i, z3.Bool(fresh_name("stop_is_text")))]))
        it.run_cut_loop(s, k, spec, lambda: z3.Bool(fresh_name("another_loop")), prologue, lambda: None, lambda: None)


class VNamesLog(V):
    ty = None

    def __init__(self, names):
        self.names = tuple(names)


class VNewLoops(V):
    ty = None

    def __init__(self, ok):
        self.ok = ok

    def fresh_like(self, ctx, base):
        return VNewLoops(z3.Bool(fresh_name(base + "_ok")))


class AssignBuilder(FunctionContract):
    prop = "C02"
    relpath = REL
    qualname = "CodeBuilder.assign"
    raises = {"ValueError": lambda st: [("nothing-was-added", B(not st._ghost.get("added")))]}

    def __init__(self):
        self.nasg = 2          # the tuple case is run with two assignees (the loop over them is unrolled)
        self.tuple_case = z3.Bool("assignees_is_a_tuple")
        self.rhs_is_call = z3.Bool("expression_is_a_call")
        self.rhs_has_kw = z3.Bool("expression_is_a_CallWithKwargs")

    def params(self, ctx):
        self.loop_iters = []
        ctx.env["self"] = VObj(TObj("CodeBuilder", {}), {"_add_statement": VFunc("_add_statement", self.m_add)})
        ctx.env["assignees"] = VArg("assignees", z3.Bool("assignees_is_text"))
        ctx.env["expression"] = VArg("expression", z3.Bool("expression_is_text"))
        ctx.env["loops"] = VLoopsArg(z3.Bool("loops_is_None"), z3.Bool("loops_is_empty"))
        ctx.ghost["added"] = []

    # ---- models --------------------------------------------------------------------------------------------------
    def isinstance_hook(self, ctx, it, obj, names):
        if isinstance(obj, VArg):
            if names == ["str"]:
                return VBool(obj.is_text if not obj.parsed else B(False))
            if names == ["tuple"]:
                return VBool(self.tuple_case if obj.tag == "assignees" else B(False))
            if names == ["Call", "CallWithKwargs"]:
                return VBool(self.rhs_is_call)
            if names == ["CallWithKwargs"]:
                return VBool(z3.And(self.rhs_is_call, self.rhs_has_kw))
            if names == ["Variable"]:
                return VBool(z3.Bool("%s_is_Variable" % obj.tag.replace("[", "_").replace("]", "")))
            if names == ["Subscript"]:
                return VBool(z3.Bool("%s_is_Subscript" % obj.tag.replace("[", "_").replace("]", "")))
        if isinstance(obj, VPy) and names == ["tuple"]:
            return VBool(z3.Bool("index_is_a_tuple"))
        return None

    def m_parse(self, ctx, it, args, kw):
        a = ctx.deref(args[0])
        if not isinstance(a, VArg):
            raise Unsupported("parse(%r)" % (a,))
        return VArg(a.tag, a.is_text, parsed=True)

    def comp_assignees(self, ctx, it, e):
        # tuple(parse_if_necessary(s) for s in assignees): element-wise, in order
        gen = e.generators[0]
        ok = (len(e.generators) == 1 and not gen.ifs and pyast.unparse(gen.iter) == "assignees"
              and pyast.unparse(e.elt) == "parse_if_necessary(%s)" % pyast.unparse(gen.target))
        if not ok:
            raise Unsupported("assignee comprehension %s" % pyast.unparse(e))
        items = []
        for i in range(self.nasg):
            el = VArg("assignees[%d]" % i, z3.Bool(fresh_name("assignee_is_text")))
            # parse_if_necessary on each: symbolic text or not; the value tag records both outcomes
            items.append(VArg(el.tag, el.is_text, parsed="maybe"))
        return VTuple(items)

    @property
    def comprehensions(self):
        from .c16 import _comprehensions_of
        return {pyast.unparse(c): self.comp_assignees for c in _comprehensions_of(REL, self.qualname)
                if "assignees" in pyast.unparse(c)}

    def m_tuple(self, ctx, it, args, kw):
        return ctx.deref(args[0])

    def tuple_literal_hook(self, ctx, it, e):
        return None

    def m_len(self, ctx, it, args, kw):
        a = ctx.deref(args[0])
        if isinstance(a, VAssignees):
            return VInt(len(a.items))
        if isinstance(a, VTuple):
            return VInt(len(a.items))
        raise Unsupported("len(%r)" % (a,))

    def list_literal(self, ctx, it, e):
        if e.elts:
            raise Unsupported("list literal")
        tgt = self._targets().get((e.lineno, e.col_offset))
        if tgt == "loops":
            return VLoopsArg(B(False), B(True))
        if tgt == "new_loops":
            return ctx.alloc(VNewLoops(B(True)))
        if tgt == "assignee_names":
            return ctx.alloc(VNamesLog(()))
        raise Unsupported("empty list for %r" % tgt)

    def _targets(self):
        if not hasattr(self, "_lt"):
            self._lt = {}
            for n in pyast.walk(self.load().node):
                if isinstance(n, pyast.Assign) and isinstance(n.value, pyast.List) and len(n.targets) == 1 \
                        and isinstance(n.targets[0], pyast.Name):
                    self._lt[(n.value.lineno, n.value.col_offset)] = n.targets[0].id
        return self._lt

    def dict_literal(self, ctx, it, e):
        return VPy("{}")

    def getattr_hook(self, ctx, it, obj, name):
        o = ctx.deref(obj)
        if isinstance(o, VArg):
            if name in ("name", "index", "parameters", "kw_parameters", "function", "aggregate"):
                return VPy("%s.%s" % (o.value_tag() if o.parsed != "maybe" else o.tag + "*", name))
        if isinstance(o, VPy) and isinstance(o.py, str) and name == "name":
            return VPy(o.py + ".name")
        if isinstance(o, VNewLoops) and name == "append":
            return VFunc("append", lambda ctx, it, a, k: self.m_loops_append(ctx, obj, o, a))
        if isinstance(o, VNamesLog) and name == "append":
            return VFunc("append", lambda ctx, it, a, k: (ctx.store(obj, VNamesLog(o.names + (getattr(ctx.deref(a[0]), "py", "?"),))), NONE)[1])
        return None

    def m_loops_append(self, ctx, ref, o, args):
        t = ctx.deref(args[0])
        i = self.loop_iters[-1] if self.loop_iters else -1
        good = (isinstance(t, VTuple) and len(t.items) == 3 and isinstance(t.items[0], VPy) and t.items[0].py == "ident#%d" % i
                and isinstance(t.items[1], VArg) and t.items[1].tag == "start#%d" % i
                and isinstance(t.items[2], VArg) and t.items[2].tag == "stop#%d" % i)
        if good:
            # parsed exactly when text
            st, sp = t.items[1], t.items[2]
            cond = z3.And(z3.Or(z3.Not(st.is_text), B(st.parsed is True)), z3.Or(st.is_text, B(st.parsed is not True)),
                          z3.Or(z3.Not(sp.is_text), B(sp.parsed is True)), z3.Or(sp.is_text, B(sp.parsed is not True)))
        else:
            cond = B(False)
        ctx.store(ref, VNewLoops(z3.And(o.ok, cond)))
        return NONE

    def m_add(self, ctx, it, args, kw):
        ctx.ghost["added"] = ctx.ghost["added"] + [ctx.deref(args[0])]
        return NONE

    def m_stmt(self, cls):
        def f(ctx, it, args, kw):
            if args:
                raise Unsupported("positional %s(...)" % cls)
            return VPy((cls, {n: ctx.deref(v) for n, v in kw.items()}))
        return VFunc(cls, f)

    def unpack(self, ctx, dv, n):
        if isinstance(dv, VAssignees) and len(dv.items) == n:
            return dv.items
        raise Unsupported("unpacking %r" % (dv,))

    @property
    def names(self):
        return {"parse": VFunc("parse", self.m_parse), "tuple": VFunc("tuple", self.m_tuple), "len": VFunc("len", self.m_len),
                "Assign": self.m_stmt("Assign"), "AssignFunctionCall": self.m_stmt("AssignFunctionCall"),
                "Call": VClass("Call"), "CallWithKwargs": VClass("CallWithKwargs"), "Variable": VClass("Variable"),
                "Subscript": VClass("Subscript"), "type": VFunc("type", lambda ctx, it, a, k: VPy("<type>"))}

    nested = property(lambda self: {"parse_if_necessary": self.m_pin})

    def m_pin(self, ctx, it, args, kw):
        """parse_if_necessary(s), the nested helper (three lines, inlined by its meaning): parse(s) iff s is text"""
        a = ctx.deref(args[0])
        if not isinstance(a, VArg):
            raise Unsupported("parse_if_necessary(%r)" % (a,))
        if a.parsed:
            return a
        if ctx.branch(a.is_text, "is-text"):
            return VArg(a.tag, a.is_text, parsed=True)
        return a

    def inv_loops(self, s):
        return [("every-loop-so-far-recorded-with-its-identifier-and-parsed-bounds", s.new_loops.ok)]

    loops = property(lambda self: {0: dict(shape="for (ident, start, stop) in loops", inv=self.inv_loops)})

    # ---- postcondition ---------------------------------------------------------------------------------------------------
    def ensures(self, st):
        added = st._ghost.get("added")
        if len(added) != 1 or not isinstance(added[0], VPy) or not isinstance(added[0].py, tuple):
            return [("exactly-one-statement-is-recorded", B(False))]
        cls, k = added[0].py
        out = [("exactly-one-statement-is-recorded", B(True))]

        def tag(v):
            v = st._deref(v)
            if isinstance(v, VArg):
                return v.value_tag() if v.parsed != "maybe" else v.tag + "*"
            if isinstance(v, VPy):
                return v.py
            if isinstance(v, VTuple):
                return tuple(tag(x) for x in v.items)
            return repr(v)
        if cls == "AssignFunctionCall":
            out.append(("only-a-call-WITHOUT-loops-becomes-a-function-call-statement(loops-are-never-dropped)",
                        z3.Or(z3.Bool("loops_is_None"), z3.Bool("loops_is_empty"))))
            e = "expression"
            pe = ("parse(expression)", "expression")
            out.append(("function-and-arguments-are-the-call's",
                        B(tag(k.get("function_id")) in tuple(x + ".function.name" for x in pe)
                          and tag(k.get("parameters")) in tuple(x + ".parameters" for x in pe)
                          and tag(k.get("kw_parameters")) in tuple(x + ".kw_parameters" for x in pe) + ("{}",))))
            names = st._deref(k.get("assignees"))
            got = names.names if isinstance(names, VNamesLog) else None
            out.append(("assignees-are-the-names-of-the-written-left-hand-sides-in-order",
                        B(got in (("assignees[0]*.name", "assignees[1]*.name"), ("parse(assignees).name",), ("assignees.name",)))))
        elif cls == "Assign":
            out.append(("assignee-subscript-expression-are-those-written",
                        B(str(tag(k.get("assignee"))).endswith(".name")
                          and tag(k.get("expression")) in ("parse(expression)", "expression"))))
            nl = st._deref(k.get("loops"))
            out.append(("loops-are-recorded-in-order-with-parsed-bounds", nl.ok if isinstance(nl, VNewLoops) else B(False)))
        else:
            out.append(("statement-class", B(False)))
        return out


def units():
    return [FunctionUnit(AssignBuilder())]


# ---- the one-statement builder methods ---------------------------------------------------------------------------------
class SmallBuilder(FunctionContract):
    """yield_state / fail_step / raise_ / switch_phase / restart_step: exactly one statement of the right class built from
    exactly the arguments written goes to _add_statement (restart_step = switch_phase(own name))"""
    prop = "C02"
    relpath = REL

    SPEC = {
        "yield_state": (["expression", "component_id", "time", "time_id"],
                        ("YieldState", {"expression": ("expression", "parse(expression)"), "component_id": ("component_id",),
                                        "time": ("time",), "time_id": ("time_id",)})),
        "fail_step": ([], ("FailStep", {})),
        "raise_": (["error_condition", "error_message"], ("Raise", {0: ("error_condition",), 1: ("error_message",)})),
        "switch_phase": (["next_phase"], ("SwitchPhase", {0: ("next_phase",)})),
        "restart_step": ([], ("switch_phase-call", {0: ("self.name",)})),
    }

    def __init__(self, method):
        self.method = method
        self.qualname = "CodeBuilder." + method
        self.args, self.want = self.SPEC[method]

    def params(self, ctx):
        ctx.env["self"] = VObj(TObj("CodeBuilder", {}), {"_add_statement": VFunc("_add_statement", self.m_add),
                                                       "switch_phase": VFunc("switch_phase", self.m_switch),
                                                       "name": VPy("self.name")})
        for a in self.args:
            ctx.env[a] = VArg(a, z3.Bool(a + "_is_text")) if a == "expression" else VPy(a)
        ctx.ghost["added"] = []

    def m_add(self, ctx, it, args, kw):
        ctx.ghost["added"] = ctx.ghost["added"] + [ctx.deref(args[0])]
        return NONE

    def m_switch(self, ctx, it, args, kw):
        ctx.ghost["added"] = ctx.ghost["added"] + [VPy(("switch_phase-call", {i: ctx.deref(a) for i, a in enumerate(args)}))]
        return NONE

    def isinstance_hook(self, ctx, it, obj, names):
        if isinstance(obj, VArg) and names == ["str"]:
            return VBool(obj.is_text if not obj.parsed else B(False))
        return None

    def m_parse(self, ctx, it, args, kw):
        a = ctx.deref(args[0])
        if not isinstance(a, VArg):
            raise Unsupported("parse(%r)" % (a,))
        return VArg(a.tag, a.is_text, parsed=True)

    def m_stmt(self, cls):
        def f(ctx, it, args, kw):
            d = {i: ctx.deref(a) for i, a in enumerate(args)}
            d.update({n: ctx.deref(v) for n, v in kw.items()})
            return VPy((cls, d))
        return VFunc(cls, f)

    @property
    def names(self):
        d = {"parse": VFunc("parse", self.m_parse)}
        for cls in ("YieldState", "FailStep", "Raise", "SwitchPhase"):
            d[cls] = self.m_stmt(cls)
        return d

    def ensures(self, st):
        added = st._ghost.get("added")
        if len(added) != 1 or not isinstance(added[0], VPy) or not isinstance(added[0].py, tuple):
            return [("exactly-one-statement-is-recorded", B(False))]
        cls, k = added[0].py
        wcls, wargs = self.want

        def tag(v):
            if isinstance(v, VArg):
                return v.value_tag()
            return getattr(v, "py", repr(v))
        ok = cls == wcls and set(k) == set(wargs) and all(tag(k[n]) in wargs[n] for n in wargs)
        out = [("exactly-one-statement-is-recorded", B(True)),
               ("it-is-the-statement-that-was-written(class-and-every-argument)", B(bool(ok)))]
        if self.method == "yield_state":
            e = k.get("expression")
            if isinstance(e, VArg):
                out.append(("text-is-parsed-and-only-text",
                            z3.And(z3.Or(z3.Not(e.is_text), B(e.parsed is True)), z3.Or(e.is_text, B(e.parsed is not True)))))
        return out


def units():
    return [FunctionUnit(AssignBuilder())] + [FunctionUnit(SmallBuilder(m)) for m in SmallBuilder.SPEC]
