"""Shared spec vocabulary for statements, phases and DAGs (C04, C05, C10)."""
import z3
from pyvc.values import *  # noqa

Id = z3.DeclareSort("Id")
Stmt = z3.DeclareSort("Stmt")
Phase = z3.DeclareSort("Phase")
PName = z3.DeclareSort("PName")
Msg = z3.DeclareSort("Msg")
VarName = z3.DeclareSort("VarName")

IdSet = z3.ArraySort(Id, z3.BoolSort())

sid = z3.Function("sid", Stmt, Id)                       # stmt.id
sdeps = z3.Function("sdeps", Stmt, IdSet)                # stmt.depends_on
is_switch = z3.Function("is_switch", Stmt, z3.BoolSort())  # isinstance(stmt, SwitchPhase)
is_nop = z3.Function("is_nop", Stmt, z3.BoolSort())
s_next_phase = z3.Function("s_next_phase", Stmt, PName)  # SwitchPhase.next_phase
s_written = z3.Function("s_written", Stmt, z3.ArraySort(VarName, z3.BoolSort()))  # get_written_variables()
is_cond_name = z3.Function("is_cond_name", VarName, z3.BoolSort())   # name.startswith("<cond>")

ph_n = z3.Function("ph_n", Phase, z3.IntSort())          # len(phase.statements)
ph_a = z3.Function("ph_a", Phase, z3.ArraySort(z3.IntSort(), Stmt))   # phase.statements[i]
ph_deps = z3.Function("ph_deps", Phase, IdSet)           # phase.depends_on (computed property)

ID = TElem("Id", Id)
PNAME = TElem("PName", PName)
MSG = TElem("Msg", Msg)
MSG.opaque = True
VARNAME = TElem("VarName", VarName,
                methods={"startswith": lambda ctx, it, obj, args, kw: _startswith(ctx, obj, args)})


def _startswith(ctx, obj, args):
    p = ctx.deref(args[0])
    if isinstance(p, VPy) and p.py == "<cond>":
        return VBool(is_cond_name(ctx.deref(obj).t))
    raise Unsupported("startswith(%r)" % (p,))


def _get_written(ctx, it, obj, args, kw):
    return VSet(TSet(VARNAME), s_written(ctx.deref(obj).t))


STMT = TElem(
    "Stmt", Stmt,
    fields={
        "id": (sid, ID),
        "depends_on": (sdeps, TSet(ID)),
        "next_phase": (s_next_phase, PNAME),
    },
    classes={"SwitchPhase": is_switch, "Nop": is_nop},
    methods={"get_written_variables": _get_written},
)

STMT_LIST = TList(STMT)


def _phase_statements(ctx, t):
    return VList(STMT_LIST, ph_n(t), ph_a(t))


PHASE = TElem(
    "Phase", Phase,
    fields={
        "statements": _phase_statements,
        "depends_on": (ph_deps, TSet(ID)),
    },
)

MSG_LIST = TList(MSG)


def in_list(n, a, s):
    """exists j. 0<=j<n and a[j]==s  (use only positively or with a skolem)"""
    j = z3.Int("j!in")
    return z3.Exists([j], z3.And(j >= 0, j < n, z3.Select(a, j) == s))


def phase_wf_axioms():
    """facts true of every ExecutionPhase value: list lengths are non-negative"""
    p = z3.Const("p!wf", Phase)
    return [z3.ForAll([p], ph_n(p) >= 0)]
