"""C04 — each step runs every statement of the phase once, after its dependencies.

Functions under contract (read from /repo/dagrt/language.py on every run):
  ExecutionPhase.depends_on, ExecutionController.reset,
  ExecutionController.update_plan (+ nested add_with_deps), ExecutionController.__call__
"""
import z3
from z3 import And, Or, Not, Implies, ForAll, Select, Store, If, IntSort, BoolSort

from pyvc.values import *  # noqa
from pyvc.contracts import FunctionContract, FunctionUnit, LemmaUnit, call_by_contract
from pyvc.poslist import TPosList, VPosList
from pyvc.engine import Obligation
from .dagspec import *  # noqa

PROP = "C04"
REL = "dagrt/language.py"

PLAN = TPosList(ID)
IDSET = TSet(ID)

DOM = z3.Const("ids_dom", z3.ArraySort(Id, BoolSort()))      # keys of phase.id_to_stmt
IDS = z3.Const("ids_val", z3.ArraySort(Id, Stmt))            # phase.id_to_stmt
num = z3.Function("num", Id, IntSort())                      # height function (from C10's postcondition)
ID2STMT = TDict(ID, STMT)


def dep(x, d):
    return Select(sdeps(Select(IDS, x)), d)


def graph_axioms():
    x, d = z3.Consts("x d", Id)
    return [
        ("id_to_stmt-maps-ids-to-their-statements", ForAll([x], Implies(Select(DOM, x), sid(Select(IDS, x)) == x))),
        ("dependencies-closed(C10)", ForAll([x, d], Implies(And(Select(DOM, x), dep(x, d)), Select(DOM, d)))),
        ("height-function(C10)", ForAll([x, d], Implies(And(Select(DOM, x), dep(x, d)), num(d) < num(x)))),
        ("height>=0", ForAll([x], num(x) >= 0)),
    ]


def WF(E, X, S=None):
    """`E` (early plan) is well-formed with respect to the executed set X"""
    x, d = z3.Consts("x d", Id)
    return [
        ("early-elements-are-unexecuted-statements",
         ForAll([x], Implies(E.has(x), And(Not(Select(X, x)), Select(DOM, x))))),
        ("early-deps-executed-or-earlier",
         ForAll([x, d], Implies(And(E.has(x), dep(x, d)),
                                Or(Select(X, d), And(E.has(d), E.before(d, x)))))),
    ]


def uses_plan_id_set():
    """plan_id_set mirrors the plan as a set; it is auxiliary state.  The invariant speaks about it only while
    the controller's code maintains it (so removing that bookkeeping altogether is not an alarm)"""
    from pyvc import extract
    import ast as pyast
    tree, text = extract.parse_module(REL)
    for node in pyast.walk(tree):
        if isinstance(node, pyast.ClassDef) and node.name == "ExecutionController":
            return "plan_id_set" in (pyast.get_source_segment(text, node) or "")
    return False


def PI(P, S, X):
    """plan invariant"""
    x, d = z3.Consts("x d", Id)
    aux = [("plan_id_set=set(plan)", S == P.M)] if uses_plan_id_set() else []
    return aux + [
        ("planned-not-executed", ForAll([x], Implies(P.has(x), And(Not(Select(X, x)), Select(DOM, x))))),
        ("planned-deps-executed-or-earlier-in-plan",
         ForAll([x, d], Implies(And(P.has(x), dep(x, d)),
                                Or(Select(X, d), And(P.has(d), P.before(d, x)))))),
    ]


def new_self(ctx, prefix="self"):
    ty = TObj("ExecutionController", {})
    plan = PLAN.fresh(prefix + "_plan")
    for f in plan.wf():
        ctx.assume(f)
    obj = VObj(ty, {
        "plan": ctx.alloc(plan),
        "plan_id_set": ctx.alloc(IDSET.fresh(prefix + "_plan_id_set")),
        "executed_ids": ctx.alloc(IDSET.fresh(prefix + "_executed_ids")),
    })
    return ctx.alloc(obj)


def sf(st, name):
    return st.field("self", name)


# ==========================================================================
class SinkContract(FunctionContract):
    """ExecutionPhase.depends_on = ids of the phase that no statement of the phase depends on"""
    prop = PROP
    relpath = REL
    qualname = "ExecutionPhase.depends_on"
    # @property @memoize_method: the value of the first call is returned again; phase records are immutable (trusted base)
    accepted_decorators = ("memoize_method",)

    def __init__(self):
        self.p = z3.Const("self_phase", Phase)

    def params(self, ctx):
        ctx.env["self"] = PHASE.wrap(self.p)

    def requires(self, st):
        return [("len>=0", ph_n(self.p) >= 0)]

    def inv(self, s):
        d = z3.Const("d", Id)
        i, j = z3.Ints("i j")
        p = self.p
        k = s.loop(0)["$i"].t
        has_id = lambda d_: z3.Exists([j], And(0 <= j, j < ph_n(p), sid(Select(ph_a(p), j)) == d_))  # noqa
        return [
            ("result-subset-of-ids", ForAll([d], Implies(Select(s.result.t, d), has_id(d)))),
            ("result-excludes-deps-of-processed",
             ForAll([d, i], Implies(And(0 <= i, i < k, Select(sdeps(Select(ph_a(p), i)), d)),
                                    Not(Select(s.result.t, d))))),
            ("ids-nobody-processed-depends-on-are-in",
             ForAll([d, j], Implies(
                 And(0 <= j, j < ph_n(p), sid(Select(ph_a(p), j)) == d,
                     ForAll([i], Implies(And(0 <= i, i < k), Not(Select(sdeps(Select(ph_a(p), i)), d))))),
                 Select(s.result.t, d)))),
        ]

    loops = property(lambda self: {0: dict(shape="for stmt in self.statements", inv=self.inv)})

    def ensures(self, st):
        d = z3.Const("d", Id)
        i, j = z3.Ints("i j")
        p = self.p
        r = st.result.t
        return [
            ("sinks-are-ids", ForAll([d], Implies(Select(r, d), z3.Exists(
                [j], And(0 <= j, j < ph_n(p), sid(Select(ph_a(p), j)) == d))))),
            ("nobody-depends-on-a-sink",
             ForAll([d, i], Implies(And(0 <= i, i < ph_n(p), Select(sdeps(Select(ph_a(p), i)), d)),
                                    Not(Select(r, d))))),
            ("every-id-nobody-depends-on-is-a-sink",
             ForAll([d, j], Implies(
                 And(0 <= j, j < ph_n(p), sid(Select(ph_a(p), j)) == d,
                     ForAll([i], Implies(And(0 <= i, i < ph_n(p)), Not(Select(sdeps(Select(ph_a(p), i)), d))))),
                 Select(r, d)))),
        ]


# ==========================================================================
class ResetContract(FunctionContract):
    prop = PROP
    relpath = REL
    qualname = "ExecutionController.reset"

    def params(self, ctx):
        ctx.env["self"] = new_self(ctx)

    def ensures(self, st):
        x = z3.Const("x", Id)
        P = sf(st, "plan")
        return [("plan-empty", P.lo == P.hi),
                ("plan-has-no-members", ForAll([x], Not(P.has(x)))),
                ] + ([("plan_id_set-empty", ForAll([x], Not(Select(sf(st, "plan_id_set").t, x))))] if uses_plan_id_set() else []) + [
                ("executed_ids-empty", ForAll([x], Not(Select(sf(st, "executed_ids").t, x))))]


# ==========================================================================
class AddWithDepsContract(FunctionContract):
    """nested `add_with_deps(stmt)`; free variables self, early_plan, id_to_stmt are parameters"""
    prop = PROP
    relpath = REL
    qualname = "ExecutionController.update_plan.add_with_deps"

    def __init__(self):
        self.s = z3.Const("stmt", Stmt)

    def params(self, ctx):
        ctx.env["self"] = new_self(ctx)
        E = PLAN.fresh("early_plan")
        for f in E.wf():
            ctx.assume(f)
        ctx.env["early_plan"] = ctx.alloc(E)
        ctx.env["id_to_stmt"] = ctx.alloc(VDict(ID2STMT, DOM, IDS))
        ctx.env["stmt"] = STMT.wrap(self.s)
        ctx.env["add_with_deps"] = VFunc("add_with_deps", self.recursive_call)

    def requires(self, st):
        X, S = sf(st, "executed_ids").t, sf(st, "plan_id_set").t
        return (graph_axioms()
                + [("stmt-is-a-statement-of-the-phase",
                    And(Select(DOM, sid(self.s)), Select(IDS, sid(self.s)) == self.s))]
                + WF(st.early_plan, X, S))

    @staticmethod
    def post(E0, E1, X, S, s_id):
        x = z3.Const("x", Id)
        return ([("old-early-plan-is-a-prefix", E0.is_prefix_of(E1))]
                + WF(E1, X, S)
                + [("requested-is-executed-or-planned-early", Or(Select(X, s_id), E1.has(s_id))),
                   ("new-elements-are-the-statement-or-lower",
                    ForAll([x], Implies(And(E1.has(x), Not(E0.has(x))), Or(x == s_id, num(x) < num(s_id)))))])

    def recursive_call(self, ctx, it, args, kw):
        callee = ctx.deref(args[0]).t
        ref = ctx.env["early_plan"]
        E0 = ctx.deref(ref)
        selfo = ctx.deref(ctx.env["self"])
        X, S = ctx.deref(selfo.fields["executed_ids"]).t, ctx.deref(selfo.fields["plan_id_set"]).t
        pre = ([("stmt-is-a-statement-of-the-phase",
                 And(Select(DOM, sid(callee)), Select(IDS, sid(callee)) == callee))]
               + WF(E0, X, S)
               + [("decreases", And(num(sid(callee)) < num(sid(self.s)), num(sid(callee)) >= 0))])
        return call_by_contract(
            ctx, it, "add_with_deps", pre, [ref],
            lambda: [f for _, f in self.post(E0, ctx.deref(ref), X, S, sid(callee))])

    def inv(self, s):
        x = z3.Const("x", Id)
        X, S = sf(s, "executed_ids").t, sf(s, "plan_id_set").t
        E, E0 = s.early_plan, s.old.early_plan
        proc = s.loop(0)["$proc"].t
        sid_ = sid(self.s)
        return ([("entry-early-plan-is-a-prefix", E0.is_prefix_of(E)),
                 ("executed-unchanged", X == sf(s.old, "executed_ids").t),
                 ("planned-unchanged", S == sf(s.old, "plan_id_set").t)]
                + WF(E, X, S)
                + [("processed-deps-executed-or-planned-early",
                    ForAll([x], Implies(Select(proc, x), Or(Select(X, x), E.has(x))))),
                   ("new-elements-are-lower",
                    ForAll([x], Implies(And(E.has(x), Not(E0.has(x))), num(x) < num(sid_))))])

    loops = property(lambda self: {0: dict(shape="for dep_id in stmt.depends_on", inv=self.inv)})
    call_modifies = {"add_with_deps": ["early_plan"]}

    def ensures(self, st):
        X, S = sf(st, "executed_ids").t, sf(st, "plan_id_set").t
        return (self.post(st.old.early_plan, st.early_plan, X, S, sid(self.s))
                + [("executed-unchanged", X == sf(st.old, "executed_ids").t),
                   ("planned-unchanged", S == sf(st.old, "plan_id_set").t)])


# ==========================================================================
class UpdatePlanContract(FunctionContract):
    prop = PROP
    relpath = REL
    qualname = "ExecutionController.update_plan"

    def __init__(self, ids_as="set"):
        self.ids_as = ids_as
        self.variant_name = "execute_ids:" + ids_as
        self.req = z3.Const("execute_ids", IDSET.sort)

    def params(self, ctx):
        ctx.env["self"] = new_self(ctx)
        ctx.env["phase"] = PHASE.fresh("phase")
        if self.ids_as == "set":
            ctx.env["execute_ids"] = VSet(IDSET, self.req)
        else:
            L = TList(ID).fresh("execute_ids")
            ctx.assume(L.n >= 0)
            self.L = L
            ctx.env["execute_ids"] = L

    def requested(self, x):
        if self.ids_as == "set":
            return Select(self.req, x)
        j = z3.Int("jr")
        return z3.Exists([j], And(0 <= j, j < self.L.n, Select(self.L.a, j) == x))

    attr_exprs = {"phase.id_to_stmt": lambda ctx, it: ctx.alloc(VDict(ID2STMT, DOM, IDS))}

    def type_of_literal(self, node):
        return PLAN

    def requires(self, st):
        x = z3.Const("x", Id)
        j = z3.Int("j")
        R = graph_axioms() + PI(sf(st, "plan"), sf(st, "plan_id_set").t, sf(st, "executed_ids").t)
        if self.ids_as == "set":
            R.append(("requested-are-statements", ForAll([x], Implies(Select(self.req, x), Select(DOM, x)))))
        else:
            R.append(("requested-are-statements",
                      ForAll([j], Implies(And(0 <= j, j < self.L.n), Select(DOM, Select(self.L.a, j))))))
        return R

    def nested_add(self, ctx, it, args, kw):
        callee = ctx.deref(args[0]).t
        ref = ctx.env["early_plan"]
        E0 = ctx.deref(ref)
        selfo = ctx.deref(ctx.env["self"])
        X, S = ctx.deref(selfo.fields["executed_ids"]).t, ctx.deref(selfo.fields["plan_id_set"]).t
        pre = ([("stmt-is-a-statement-of-the-phase",
                 And(Select(DOM, sid(callee)), Select(IDS, sid(callee)) == callee))]
               + WF(E0, X, S))
        return call_by_contract(
            ctx, it, "add_with_deps", pre, [ref],
            lambda: [f for _, f in AddWithDepsContract.post(E0, ctx.deref(ref), X, S, sid(callee))])

    nested = property(lambda self: {"add_with_deps": self.nested_add})
    call_modifies = {"add_with_deps": ["early_plan"]}

    def inv(self, s):
        x = z3.Const("x", Id)
        X, S = sf(s, "executed_ids").t, sf(s, "plan_id_set").t
        E = s.early_plan
        if self.ids_as == "set":
            processed = lambda x_: Select(s.loop(0)["$proc"].t, x_)  # noqa
            cov = ForAll([x], Implies(processed(x), Or(Select(X, x), E.has(x))))
        else:
            j = z3.Int("j")
            cov = ForAll([j], Implies(And(0 <= j, j < s.loop(0)["$i"].t),
                                      Or(Select(X, Select(self.L.a, j)), E.has(Select(self.L.a, j)))))
        return ([("executed-unchanged", X == sf(s.old, "executed_ids").t),
                 ("planned-unchanged", S == sf(s.old, "plan_id_set").t),
                 ("plan-unchanged", sf(s, "plan").same_as(sf(s.old, "plan"))),
                 ("early-lower-bound", E.lo == 0)]
                + WF(E, X, S)
                + [("processed-requests-done-or-planned", cov)])

    loops = property(lambda self: {0: dict(shape="for stmt_id in execute_ids", inv=self.inv)})

    def ensures(self, st):
        x, y = z3.Consts("x y", Id)
        j = z3.Int("j")
        P0, P1 = sf(st.old, "plan"), sf(st, "plan")
        X = sf(st, "executed_ids").t
        S1 = sf(st, "plan_id_set").t
        if self.ids_as == "set":
            cov = ForAll([x], Implies(Select(self.req, x), Or(Select(X, x), P1.has(x))))
        else:
            cov = ForAll([j], Implies(And(0 <= j, j < self.L.n),
                                      Or(Select(X, Select(self.L.a, j)), P1.has(Select(self.L.a, j)))))
        E = st.early_plan
        return ([("executed-unchanged", X == sf(st.old, "executed_ids").t),
                 ("every-requested-id-is-executed-or-planned", cov),
                 ("plan-members=old-plan-members+early-plan",
                  ForAll([x], P1.has(x) == Or(P0.has(x), E.has(x)))),
                 ("statements-not-moved-keep-their-relative-order",
                  ForAll([x, y], Implies(And(P0.has(x), P0.has(y), Not(E.has(x)), Not(E.has(y)), P0.before(x, y)),
                                         P1.before(x, y)))),
                 ("requested-statements-and-their-unvisited-dependencies-come-before-anything-else-planned",
                  ForAll([x, y], Implies(And(E.has(x), P0.has(y), Not(E.has(y))), P1.before(x, y)))),
                 ("requested-part-is-in-dependency-order",
                  ForAll([x, y], Implies(And(E.has(x), E.has(y), E.before(x, y)), P1.before(x, y))))]
                + [("plan-invariant/" + n, f) for n, f in PI(P1, S1, X)])


# ==========================================================================
class CallContract(FunctionContract):
    """ExecutionController.__call__: the dispatch loop.  `target` is an arbitrary object whose
    evaluate_condition / exec_* may return anything the protocol allows, or raise."""
    prop = PROP
    relpath = REL
    qualname = "ExecutionController.__call__"
    exc_hierarchy = {"TargetException": ["Exception"]}
    raises = {"TargetException": lambda st: []}     # a step cut short by a failure / switch / error
    call_modifies = {"self.update_plan": ["self.plan", "self.plan_id_set"]}

    def params(self, ctx):
        ctx.env["self"] = new_self(ctx)
        ctx.env["phase"] = PHASE.fresh("phase")
        ctx.env["target"] = VObj(TObj("Target", {}), {})

    def ghosts(self, ctx):
        ctx.ghost["vpos"] = z3.Const("vpos0", z3.ArraySort(Id, IntSort()))
        ctx.ghost["vc"] = z3.IntVal(0)
        ctx.ghost["disp"] = z3.K(Id, z3.BoolVal(False))      # ids whose exec method was called
        ctx.ghost["cond"] = z3.K(Id, z3.BoolVal(False))      # ids whose guard was evaluated

    attr_exprs = {"phase.id_to_stmt": lambda ctx, it: ctx.alloc(VDict(ID2STMT, DOM, IDS))}

    def requires(self, st):
        return graph_axioms() + PI(sf(st, "plan"), sf(st, "plan_id_set").t, sf(st, "executed_ids").t)

    # ---- target models -----------------------------------------------------------
    def _visit_obligations(self, ctx, it, stmt, what, ghost):
        selfo = ctx.deref(ctx.env["self"])
        X = ctx.deref(selfo.fields["executed_ids"]).t
        d = z3.Const("d", Id)
        x = sid(stmt)
        ctx.oblige(it.oname("%s/statement-counts-as-visited" % what), Select(X, x))
        ctx.oblige(it.oname("%s/all-dependencies-visited-before" % what),
                   ForAll([d], Implies(dep(x, d), And(Select(X, d), d != x))))
        ctx.oblige(it.oname("%s/at-most-once-per-step" % what), Not(Select(ctx.ghost[ghost], x)))
        ctx.ghost[ghost] = Store(ctx.ghost[ghost], x, True)

    def m_eval_cond(self, ctx, it, args, kw):
        stmt = ctx.deref(args[0]).t
        self._visit_obligations(ctx, it, stmt, "evaluate_condition", "cond")
        if ctx.choose(2, "cond-raises") == 0:
            ctx.raise_("TargetException")
        return VBool(z3.Bool(fresh_name("guard")))

    def m_exec(self, ctx, it, args, kw):
        stmt = ctx.deref(args[0]).t
        self._visit_obligations(ctx, it, stmt, "exec", "disp")
        k = ctx.choose(4, "exec-outcome")
        if k == 0:
            ctx.raise_("TargetException")
        if k == 1:
            return NONE
        event = NONE if ctx.choose(2, "event") == 0 else VPy("<event>")
        if k == 2:
            return VTuple([event, NONE])
        L = TList(ID).fresh("new_deps")
        j = z3.Int("j")
        ctx.assume(L.n >= 0)
        # the protocol: requested ids are statements of the phase
        ctx.assume(ForAll([j], Implies(And(0 <= j, j < L.n), Select(DOM, Select(L.a, j)))))
        return VTuple([event, ctx.alloc(L)])

    def m_update_plan(self, ctx, it, args, kw):
        L = ctx.deref(args[1])
        selfo = ctx.deref(ctx.env["self"])
        pref, sref = selfo.fields["plan"], selfo.fields["plan_id_set"]
        P0, S0 = ctx.deref(pref), ctx.deref(sref).t
        X = ctx.deref(selfo.fields["executed_ids"]).t
        j = z3.Int("j")
        x, y = z3.Consts("x y", Id)
        pre = PI(P0, S0, X) + [("requested-are-statements",
                                ForAll([j], Implies(And(0 <= j, j < L.n), Select(DOM, Select(L.a, j)))))]

        def post():
            P1, S1 = ctx.deref(pref), ctx.deref(sref).t
            return ([ForAll([j], Implies(And(0 <= j, j < L.n),
                                         Or(Select(X, Select(L.a, j)), P1.has(Select(L.a, j))))),
                     ForAll([x], Implies(P0.has(x), P1.has(x)))]
                    + [f for _, f in PI(P1, S1, X)])
        return call_by_contract(ctx, it, "update_plan", pre, [pref, sref], post)

    calls = property(lambda self: {"target.evaluate_condition": self.m_eval_cond,
                                   "getattr(target, stmt.exec_method)": self.m_exec,
                                   "self.update_plan": self.m_update_plan})

    def on_yield(self, ctx, it, v):
        pass

    def order(self, s):
        x, d = z3.Consts("x d", Id)
        X, X0 = sf(s, "executed_ids").t, sf(s.old, "executed_ids").t
        vpos, vc = s.g("vpos"), s.g("vc")
        new = lambda x_: And(Select(X, x_), Not(Select(X0, x_)))  # noqa
        return [
            ("executed-only-grows", ForAll([x], Implies(Select(X0, x), Select(X, x)))),
            ("visit-positions", And(vc >= 0, ForAll([x], Implies(new(x), And(0 <= Select(vpos, x), Select(vpos, x) < vc))))),
            ("visited-after-all-dependencies",
             ForAll([x, d], Implies(And(new(x), dep(x, d)),
                                    And(Select(X, d), Implies(new(d), Select(vpos, d) < Select(vpos, x)))))),
            ("guard-evaluated-and-dispatched-only-for-visited",
             ForAll([x], And(Implies(Select(s.g("disp"), x), new(x)), Implies(Select(s.g("cond"), x), new(x))))),
            ("initially-planned-are-executed-or-still-planned",
             ForAll([x], Implies(sf(s.old, "plan").has(x), Or(Select(X, x), sf(s, "plan").has(x))))),
        ]

    def inv(self, s):
        return PI(sf(s, "plan"), sf(s, "plan_id_set").t, sf(s, "executed_ids").t) + self.order(s)

    loops = property(lambda self: {0: dict(shape="while self.plan", inv=self.inv,
                                           havoc_ghosts=["vpos", "vc", "disp", "cond"])})

    @property
    def ghost_updates(self):
        def on_add(ctx, it):
            x = ctx.deref(ctx.env["stmt_id"]).t
            ctx.ghost["vpos"] = Store(ctx.ghost["vpos"], x, ctx.ghost["vc"])
            ctx.ghost["vc"] = ctx.ghost["vc"] + 1

        return {"self.executed_ids.add(stmt_id)": on_add}

    def exec_pre_add(self, ctx, it):
        pass

    def ensures(self, st):
        x, d = z3.Consts("x d", Id)
        X, X0 = sf(st, "executed_ids").t, sf(st.old, "executed_ids").t
        return ([("everything-planned-at-entry-was-visited",
                  ForAll([x], Implies(sf(st.old, "plan").has(x), Select(X, x)))),
                 ("plan-empty", Not(sf(st, "plan").truth(None))),
                 ("visited-set-closed-under-dependencies",
                  ForAll([x, d], Implies(And(Select(X, x), Not(Select(X0, x)), dep(x, d)), Select(X, d))))]
                + self.order(st))


def sink_closure_lemma():
    """A-SINK: a dependency-closed set C of statements that contains every sink contains every
    statement.  Step of the well-founded induction on (bound - num): proved here; the induction
    rule itself (finite phase => num bounded above) is trusted (Rule IND)."""
    C = z3.Const("C", z3.ArraySort(Id, BoolSort()))
    SINK = z3.Const("SINK", z3.ArraySort(Id, BoolSort()))
    parent = z3.Function("parent", Id, Id)
    x, y, d = z3.Consts("x y d", Id)
    hyps = [f for _, f in graph_axioms()] + [
        # ExecutionPhase.depends_on (SinkContract): an id that is not a sink is a dependency of some statement
        ForAll([x], Implies(And(Select(DOM, x), Not(Select(SINK, x))),
                            And(Select(DOM, parent(x)), dep(parent(x), x)))),
        ForAll([x], Implies(Select(SINK, x), Select(C, x))),
        ForAll([x, d], Implies(And(Select(C, x), Select(DOM, x), dep(x, d)), Select(C, d))),
    ]
    x0 = z3.Const("x0", Id)
    ih = ForAll([y], Implies(And(Select(DOM, y), num(y) > num(x0)), Select(C, y)))
    return [], [("induction-step", hyps + [ih, Select(DOM, x0)], Select(C, x0))]


def step_composition_lemma():
    """reset ; update_plan(phase, phase.depends_on) ; __call__  (as in run_single_step):
    from the three postconditions, the visited set contains every sink and is closed under
    dependencies -- the hypotheses of A-SINK with C = executed_ids."""
    X1 = z3.Const("X_after", z3.ArraySort(Id, BoolSort()))
    PM = z3.Const("P_after_update", z3.ArraySort(Id, BoolSort()))
    SINK = z3.Const("SINK", z3.ArraySort(Id, BoolSort()))
    x, d = z3.Consts("x d", Id)
    hyps = [
        # reset: executed empty (X0 = {}), update_plan post: every requested id executed or planned
        ForAll([x], Implies(Select(SINK, x), Select(PM, x))),
        # __call__ post: everything planned at entry was visited; closed under dependencies (X0 empty)
        ForAll([x], Implies(Select(PM, x), Select(X1, x))),
        ForAll([x, d], Implies(And(Select(X1, x), dep(x, d)), Select(X1, d))),
    ]
    return [], [("sinks-visited", hyps, ForAll([x], Implies(Select(SINK, x), Select(X1, x)))),
                ("closed", hyps, ForAll([x, d], Implies(And(Select(X1, x), Select(DOM, x), dep(x, d)), Select(X1, d))))]


def units():
    return [FunctionUnit(SinkContract()), FunctionUnit(ResetContract()),
            FunctionUnit(AddWithDepsContract()),
            FunctionUnit(UpdatePlanContract("set")), FunctionUnit(UpdatePlanContract("list")),
            FunctionUnit(CallContract()),
            LemmaUnit("lemma:A-SINK", sink_closure_lemma),
            LemmaUnit("lemma:step-composition", step_composition_lemma)] + _single_step()


def _single_step():
    # the step-composition lemma needs the protocol of a step: reset first, then the plan built from the sinks of the
    # current phase, then the controller is run (NumpyInterpreter.run_single_step; contract shared with C01 / C11)
    from .steploop import SingleStepInterp
    from pyvc.contracts import FilteredUnit
    # only the protocol clauses: where next_phase is moved and what the clean-up leaves are C01's / C11's subjects
    return [FilteredUnit(FunctionUnit(SingleStepInterp()),
                         lambda n: "/protocol/" in n or "the-body-ran" in n or "no-exception(KeyError)" in n)]


LEVEL = "proof"
BOUNDED = {"quick": {"timeout_s": 60}, "thorough": {"timeout_s": 600}}
TRUSTED_BASE = [
    "Rule IND (well-founded induction on an integer measure bounded above on a finite phase) concludes A-SINK from its proved step",
    "callee models (update_plan inside __call__, add_with_deps inside update_plan and itself) are the callees' separately proved contracts",
    "@property/@memoize_method on ExecutionPhase.depends_on / id_to_stmt return the value of the first call (phase records are immutable)",
]
ASSUMPTIONS = [
    "precondition = postcondition of verify_code (C10): dependencies closed within the phase, a height function num >= 0 exists, ids unique",
    "phase.id_to_stmt maps each id to the statement with that id (dict comprehension over unique ids)",
    "target.evaluate_condition / exec_* are arbitrary callees: may return any value the protocol allows, or raise (step cut short); requested new_deps name statements of the phase",
    "duplicate-free lists are encoded by their position view; every append carries the proof obligation that the element is new",
    "generator semantics: the body between two yields is executed atomically with respect to the controller state (no interleaving with the consumer is modelled)",
]
EXPLANATION = ("ExecutionPhase.depends_on is proved to be the sink set; reset empties the three containers; add_with_deps (recursive, "
               "decreases the height) keeps the early plan duplicate-free with dependencies first; update_plan puts the requested ids and "
               "their unvisited dependencies before everything else planned, keeps the remaining order and re-establishes the plan "
               "invariant; the dispatch loop of __call__ visits each planned id once, marks it visited before evaluating its guard, and "
               "never dispatches a statement before all its dependencies were visited; with A-SINK the visited set is the whole phase.")
