import Mathlib.Order.Monotone.Basic
namespace LChaotic
variable {ι α : Type*}
inductive Reach (ops : ι → α → α) (x₀ : α) : α → Prop
  | base : Reach ops x₀ x₀
  | step {z : α} (i : ι) : Reach ops x₀ z → Reach ops x₀ (ops i z)

theorem reach_le_postfix [Preorder α] (ops : ι → α → α) (x₀ : α)
    (hmono : ∀ i, Monotone (ops i)) (y : α) (h0 : x₀ ≤ y) (hy : ∀ i, ops i y ≤ y) :
    ∀ z, Reach ops x₀ z → z ≤ y := by
  intro z hz
  induction hz with
  | base => exact h0
  | step i _ ih => exact le_trans (hmono i ih) (hy i)

theorem reach_ge_start [Preorder α] (ops : ι → α → α) (x₀ : α)
    (hinfl : ∀ i z, z ≤ ops i z) : ∀ z, Reach ops x₀ z → x₀ ≤ z := by
  intro z hz
  induction hz with
  | base => exact le_refl _
  | step i _ ih => exact le_trans ih (hinfl i _)

/-- two tables reached from the same start by any update orders, both post-fixed, are equal -/
theorem chaotic_unique [PartialOrder α] (ops : ι → α → α) (x₀ : α)
    (hmono : ∀ i, Monotone (ops i)) (hinfl : ∀ i z, z ≤ ops i z)
    (x x' : α) (hx : Reach ops x₀ x) (hxf : ∀ i, ops i x ≤ x)
    (hx' : Reach ops x₀ x') (hxf' : ∀ i, ops i x' ≤ x') : x = x' :=
  le_antisymm
    (reach_le_postfix ops x₀ hmono x' (reach_ge_start ops x₀ hinfl x' hx') hxf' x hx)
    (reach_le_postfix ops x₀ hmono x (reach_ge_start ops x₀ hinfl x hx) hxf x' hx')
end LChaotic
