#!/usr/bin/env python3
"""tools/selftest_seeded.py [ID ...] — regression test of the checks themselves.

For every kept seeded change (seeded/<id>/patch.diff + meta.json) a scratch git worktree of /repo is created outside
/repo and /verif, the patch applied there, and the property's check run against it (DAGRT_REPO=<scratch>,
VERIF_OUT=<scratch output dir>, so neither /repo nor the committed evidence is touched).  Expected: exit 1 with a
VIOLATION line.  For every harmless refactoring (seeded/harmless/*.diff) all checks named in its RESULTS line are run:
expected exit 0 or 2, never 1 or 3.  Scratch trees are removed afterwards.  Prints one line per case and a summary;
exit 0 iff every expectation holds."""
import json, os, shutil, subprocess, sys, tempfile
from concurrent.futures import ThreadPoolExecutor
HERE = os.path.dirname(os.path.dirname(os.path.abspath(__file__)))
SEEDED = os.path.join(HERE, "seeded")
JOBS = int(os.environ.get("JOBS", "3"))


def run_case(case):
    kind, cid, patch, props = case
    tmp = tempfile.mkdtemp(prefix="dagrt_selftest_")
    wt = os.path.join(tmp, "repo")
    out = os.path.join(tmp, "out")
    os.makedirs(out)
    res = []
    try:
        subprocess.run(["git", "-C", "/repo", "worktree", "add", "-q", "--detach", wt, "HEAD"], check=True,
                       capture_output=True)
        p = subprocess.run(["git", "-C", wt, "apply", patch], capture_output=True, text=True)
        if p.returncode != 0:
            return [(kind, cid, "-", "PATCH-DOES-NOT-APPLY", False)]
        for prop in props:
            env = dict(os.environ, DAGRT_REPO=wt, VERIF_OUT=out)
            r = subprocess.run([os.path.join(HERE, "check"), prop], capture_output=True, text=True, env=env, cwd=HERE)
            viol = "VIOLATION property=%s" % prop in r.stdout
            if kind == "breaking":
                ok = r.returncode == 1 and viol
                meta_p = os.path.join(os.path.dirname(patch), "meta.json")
                want = json.load(open(meta_p)).get("expected_exit", 1) if os.path.exists(meta_p) else 1
                if want in (0, 2):  # kept although not caught: the recorded, explained outcome is "undecided" / "known finding"
                    ok = r.returncode == want and not viol
            else:
                ok = r.returncode in (0, 2) and not viol
            res.append((kind, cid, prop, "exit=%d%s" % (r.returncode, " VIOLATION" if viol else ""), ok))
    finally:
        subprocess.run(["git", "-C", "/repo", "worktree", "remove", "--force", wt], capture_output=True)
        shutil.rmtree(tmp, ignore_errors=True)
    return res


TOUCHED = {"data.py": ["C09", "C14"], "dag_ast.py": ["C05", "C06", "C15", "C07", "C01"], "language.py": ["C01", "C02", "C04", "C08", "C16", "C11"],
           "analysis.py": ["C10", "C15"], "exec_numpy.py": ["C01", "C08", "C11", "C04"], "transform.py": ["C07", "C16", "C15"],
           "utils.py": ["C13", "C20", "C08", "C15"], "expression.py": ["C17", "C18", "C08", "C19"], "python.py": ["C01", "C11", "C13", "C15", "C20"],
           "function_registry.py": ["C09", "C01", "C15"], "fortran.py": ["C13", "C15", "C20"]}


def cross():
    """--cross: every seeded change against the checks of OTHER properties anchored in the files it touches; prints
    the exit codes for review (an exit 1 there is right only if that property is really broken by the change)"""
    cases = []
    for d in sorted(os.listdir(SEEDED)):
        full = os.path.join(SEEDED, d)
        if d == "harmless" or not os.path.isdir(full):
            continue
        meta = json.load(open(os.path.join(full, "meta.json")))
        txt = open(os.path.join(full, "patch.diff")).read()
        ps = sorted({p for name, pl in TOUCHED.items() if ("/" + name) in txt for p in pl} - {meta["property"]})
        if ps:
            cases.append(("harmless", d, os.path.join(full, "patch.diff"), ps))     # judged as "exit 0/2 expected"; review the others
    with ThreadPoolExecutor(JOBS) as ex:
        for res in ex.map(run_case, cases):
            for kind, cid, prop, what, ok in res:
                print("cross     %-10s %-4s %-22s %s" % (cid, prop, what, "" if ok else "REVIEW"), flush=True)
    return 0


def main():
    if "--cross" in sys.argv:
        return cross()
    want = set(sys.argv[1:])
    cases = []
    for d in sorted(os.listdir(SEEDED)):
        full = os.path.join(SEEDED, d)
        if d == "harmless" or not os.path.isdir(full):
            continue
        if want and d not in want:
            continue
        meta = json.load(open(os.path.join(full, "meta.json")))
        cases.append(("breaking", d, os.path.join(full, "patch.diff"), [meta["property"]]))
    hl = os.path.join(SEEDED, "harmless")
    if os.path.isdir(hl):
        props = [c["property_id"] for c in json.load(open(os.path.join(HERE, "MANIFEST.json")))["checks"]]
        touched = TOUCHED
        for f in sorted(os.listdir(hl)):
            if not f.endswith(".diff"):
                continue
            cid = "harmless/" + f[:-5]
            if want and cid not in want and "harmless" not in want:
                continue
            txt = open(os.path.join(hl, f)).read()
            ps = sorted({p for name, pl in touched.items() if ("/" + name) in txt for p in pl}) or props[:3]
            cases.append(("harmless", cid, os.path.join(hl, f), ps))
    bad = 0
    with ThreadPoolExecutor(JOBS) as ex:
        for res in ex.map(run_case, cases):
            for kind, cid, prop, what, ok in res:
                print("%-9s %-22s %-4s %-22s %s" % (kind, cid, prop, what, "ok" if ok else "UNEXPECTED"), flush=True)
                bad += 0 if ok else 1
    print("selftest: %d cases, %d unexpected" % (len(cases), bad))
    return 1 if bad else 0


if __name__ == "__main__":
    sys.exit(main())
