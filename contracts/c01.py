"""C01 — interpreter and generated Python stepper both implement the written program (partial).

Functions under contract (read from /repo on every run):
  dagrt/exec_numpy.py: NumpyInterpreter.run, exec_Assign (no spurious exception)
  dagrt/codegen/python.py: the emitted `run` and `run_single_step` templates
  dagrt/utils.py: resolve_args (against Python's call binding)
"""
import ast as pyast
import z3
from z3 import And, Or, Not, Implies, ForAll, Exists, Select, Store, If, IntSort, BoolSort

from pyvc.values import *  # noqa
from pyvc.contracts import FunctionContract, FunctionUnit, LemmaUnit
from .steploop import units_steploop, units_single_step
from .c08 import ExecAssignNoSpuriousException, ImplementLoops

PROP = "C01"

AName = z3.DeclareSort("ArgName")
AVal = z3.DeclareSort("ArgVal")
AKey = z3.Datatype("ArgKey")
AKey.declare("KPos", ("pos", IntSort()))
AKey.declare("KName", ("nm", AName))
AKey = AKey.create()
ANAME = TElem("ArgName", AName)
AVAL = TElem("ArgVal", AVal)
ix = z3.Function("index_of_arg_name", AName, IntSort())


class VArgDict(V):
    """arg_dict: keys are ints (positional) or names (keyword)"""
    ty = None

    def __init__(self, dom, val):
        self.dom, self.val = dom, val

    @staticmethod
    def key(k):
        if isinstance(k, VInt):
            return AKey.KPos(k.t)
        if isinstance(k, VElem) and k.ty is ANAME:
            return AKey.KName(k.t)
        raise Unsupported("arg_dict key %r" % (k,))

    def contains(self, it, k):
        return Select(self.dom, self.key(k))

    def truth(self, it):
        res = z3.Bool(fresh_name("nonempty"))
        w = z3.Const(fresh_name("leftover"), AKey)
        e = z3.Const("e", AKey)
        it.ctx.assume(Implies(res, Select(self.dom, w)))
        it.ctx.assume(Implies(Not(res), ForAll([e], Not(Select(self.dom, e)))))
        return res

    def fresh_like(self, ctx, base):
        return VArgDict(z3.Const(fresh_name(base + "_dom"), self.dom.sort()),
                        z3.Const(fresh_name(base + "_val"), self.val.sort()))


def _ad_copy(ctx, it, obj, args, kw):
    o = ctx.deref(obj)
    return ctx.alloc(VArgDict(o.dom, o.val))


def _ad_pop(ctx, it, obj, args, kw):
    o = ctx.deref(obj)
    k = VArgDict.key(ctx.deref(args[0]))
    if not ctx.branch(Select(o.dom, k), "pop-key"):
        ctx.raise_("KeyError")
    ctx.store(obj, VArgDict(Store(o.dom, k, False), o.val))
    return AVAL.wrap(Select(o.val, k))


VArgDict.methods = {"copy": _ad_copy, "pop": _ad_pop}


class ResolveArgs(FunctionContract):
    prop = PROP
    relpath = "dagrt/utils.py"
    qualname = "resolve_args"
    prune_quantified = False

    def __init__(self):
        self.n = z3.Int("n_arg_names")
        self.names_a = z3.Const("arg_names_a", z3.ArraySort(IntSort(), AName))
        self.dom0 = z3.Const("arg_dict_dom", z3.ArraySort(AKey, BoolSort()))
        self.val0 = z3.Const("arg_dict_val", z3.ArraySort(AKey, AVal))
        self.ddom = z3.Const("default_dom", z3.ArraySort(AName, BoolSort()))
        self.dval = z3.Const("default_val", z3.ArraySort(AName, AVal))

    def params(self, ctx):
        ctx.env["arg_names"] = VList(TList(ANAME), self.n, self.names_a)
        ctx.env["default_dict"] = VDict(TDict(ANAME, AVAL), self.ddom, self.dval)
        ctx.env["arg_dict"] = ctx.alloc(VArgDict(self.dom0, self.val0))

    def requires(self, st):
        j = z3.Int("j")
        return [("n>=0", self.n >= 0),
                ("parameter-names-are-distinct", ForAll([j], Implies(And(0 <= j, j < self.n), ix(Select(self.names_a, j)) == j)))]

    def type_of_literal(self, node):
        return TList(AVAL)

    names = {"tuple": VFunc("tuple", lambda ctx, it, a, k: a[0]), "str": VFunc("str", lambda ctx, it, a, k: VPy("<str>"))}

    comprehensions = {"(str(i) for i in arg_dict)": lambda ctx, it, e: VPy("<message parts>")}

    def binop_hook(self, ctx, it, op, a, b):
        if op is pyast.Add and isinstance(a, VPy) and isinstance(b, VPy):
            return VPy("<message>")
        # message formatting: "argument '%d' ..." % arg_names[i] raises TypeError itself for a str; either way a TypeError
        if op is pyast.Mod and isinstance(a, VPy):
            return VPy("<message>")
        return None

    # ---- A-PY: Python's call binding ---------------------------------------------------------
    def name(self, j):
        return Select(self.names_a, j)

    def given_pos(self, j):
        return Select(self.dom0, AKey.KPos(j))

    def given_kw(self, j):
        return Select(self.dom0, AKey.KName(self.name(j)))

    def spec_value(self, j):
        return If(self.given_pos(j), Select(self.val0, AKey.KPos(j)),
                  If(self.given_kw(j), Select(self.val0, AKey.KName(self.name(j))), Select(self.dval, self.name(j))))

    def consumed(self, k, upto):
        """key k is the positional or keyword key of one of the parameters 0..upto-1"""
        return Or(And(AKey.is_KPos(k), 0 <= AKey.pos(k), AKey.pos(k) < upto),
                  And(AKey.is_KName(k), 0 <= ix(AKey.nm(k)), ix(AKey.nm(k)) < upto,
                      self.name(ix(AKey.nm(k))) == AKey.nm(k)))

    def error_upto(self, upto):
        j = z3.Int("je")
        return Exists([j], And(0 <= j, j < upto,
                               Or(And(self.given_pos(j), self.given_kw(j)),
                                  And(Not(self.given_pos(j)), Not(self.given_kw(j)), Not(Select(self.ddom, self.name(j)))))))

    def inv(self, s):
        i = s.loop(0)["$i"].t
        j = z3.Int("j")
        k = z3.Const("k", AKey)
        D = s.arg_dict
        return [("one-value-per-processed-parameter", s.args.n == i),
                ("values-follow-python-call-binding",
                 ForAll([j], Implies(And(0 <= j, j < i), Select(s.args.a, j) == self.spec_value(j)))),
                ("no-binding-error-among-processed-parameters", Not(self.error_upto(i))),
                ("remaining-keys-are-the-unconsumed-ones",
                 ForAll([k], Select(D.dom, k) == And(Select(self.dom0, k), Not(self.consumed(k, i))))),
                ("values-unchanged", D.val == self.val0)]

    loops = property(lambda self: {0: dict(shape="for (i, name) in enumerate(arg_names)", inv=self.inv)})

    def ensures(self, st):
        j = z3.Int("j")
        k = z3.Const("k", AKey)
        r = st.result
        return [("one-value-per-parameter", r.n == self.n),
                ("positional-else-keyword-else-default",
                 ForAll([j], Implies(And(0 <= j, j < self.n), Select(r.a, j) == self.spec_value(j)))),
                ("returns-only-if-python-would-bind-the-call",
                 And(Not(self.error_upto(self.n)),
                     ForAll([k], Implies(Select(self.dom0, k), self.consumed(k, self.n)))))]

    @property
    def raises(self):
        def te(st):
            k = z3.Const("k", AKey)
            return [("TypeError-only-if-python-would-reject-the-call",
                     Or(self.error_upto(self.n),
                        Exists([k], And(Select(self.dom0, k), Not(self.consumed(k, self.n))))))]
        return {"TypeError": te}


def builtin_signature_lemma():
    """the interpreter calls builtins_python.builtin_<name>(**kwargs) with the argument names of the
    registry entry <builtin><name>: the two signatures must agree (finite check on the two sources)"""
    from pyvc import extract
    reg, _ = extract.parse_module("dagrt/function_registry.py")
    bip, _ = extract.parse_module("dagrt/builtins_python.py")
    impl = {n.name[len("builtin_"):]: [a.arg for a in n.args.args] for n in bip.body
            if isinstance(n, pyast.FunctionDef) and n.name.startswith("builtin_")}
    items = []
    for cls in [n for n in reg.body if isinstance(n, pyast.ClassDef)]:
        fields = {}
        for st in cls.body:
            if isinstance(st, pyast.Assign) and isinstance(st.targets[0], pyast.Name):
                try:
                    fields[st.targets[0].id] = pyast.literal_eval(st.value)
                except Exception:
                    pass
        ident = fields.get("identifier")
        if isinstance(ident, str) and ident.startswith("<builtin>") and "arg_names" in fields:
            name = ident[len("<builtin>"):]
            want = list(fields["arg_names"]) if not isinstance(fields["arg_names"], str) else [fields["arg_names"]]
            if name in impl:
                items.append(("builtin[%s]/implementation-takes-the-registry-argument-names" % name, [],
                              z3.BoolVal(impl[name] == want)))
    items.append(("builtins-found", [], z3.BoolVal(len(items) >= 8)))
    return [], items


def units():
    from . import c01exec
    from . import c02assign, c01emit, c01lower, c01driver, c01frame
    from pyvc.contracts import FilteredUnit
    # where reset() stands inside a step is C04's subject (sequential runs cannot tell 'first thing' from 'last thing of the previous step')
    single = [FilteredUnit(u, lambda n: 'reset-is-the-first-action' not in n and 'plan-is-built-after-reset' not in n and 'the-body-ran' not in n) if isinstance(u, FunctionUnit) else u
              for u in units_single_step()]
    return units_steploop() + single + c01exec.units() + c02assign.units() + __import__('contracts.c02', fromlist=['builder_block_units']).builder_block_units() + c01emit.units() + c01lower.units() + c01driver.units() + c01frame.units() + [LemmaUnit("lemma:builtin-signatures", builtin_signature_lemma),FunctionUnit(ResolveArgs()), FunctionUnit(ImplementLoops()),
                               FunctionUnit(ExecAssignNoSpuriousException())]


LEVEL = "other"
BOUNDED = {"quick": {"timeout_s": 90}, "thorough": {"timeout_s": 900}}
TRUSTED_BASE = [
    "A-EMIT, statement level - now checked by translation validation of the templates (contracts/c01emit.py): every emit_inst_* / emit_if_* / emit_for_* / "
    "emit_else_begin / emit_return is executed with text tracked concretely (expression text, managed names and repr() as placeholders) and the emitted lines must parse "
    "to the same Python syntax tree as a reference statement written from exec_* (loop nests / subscripts / assignee tuples with 0, 1, 2 elements: stated bound); "
    "lower_node / lower_ast / lower_inst (contracts/c01lower.py) are proved to emit, for every structured program, text whose block structure executes exactly the "
    "program's trace (stack machine over the tree ADT, every valuation of the guards)",
    "A-EXPR: the dagrt-specific methods of the Python expression printer (map_variable, map_call, map_call_with_kwargs, map_generic_call with 0-2 positional / keyword "
    "arguments for registered and unregistered functions, map_if) are validated the same way (returned text parses to the reference expression; nested conditionals "
    "are printed with the precedence that forces parentheses); UNVERIFIED remains pymbolic's StringifyMapper (operators, precedence, constants), map_constant / "
    "map_numpy_array, the registered built-ins' text patterns, and that the reference texts mean what the interpreter's EvaluationMapper computes; the reference statements of c01emit.py are written by hand from exec_* (a spec, compared by reading)",
    "template extraction: the string constants passed to emit() in _emit_run/_emit_run_single_step are parsed as the bodies of functions whose header is synthesised from the PythonFunctionEmitter(name, args) call next to them",
    "A-PY: Python's call binding (positional, else keyword, else default; TypeError for doubly given, missing or left-over arguments) is the spec of resolve_args",
    "phase_transition_table[name] == (phase.next_phase, self.phase_<name>) as built by _emit_constructor (not under contract)",
]
ASSUMPTIONS = [
    "the phase body is an arbitrary generator (any events, any change of t/dt/state at each resumption, any of four exits)",
    "the composition with C02 (program order = any admissible schedule), C04 (the interpreter runs an admissible schedule), C05/C06 (generated code runs an admissible schedule) is by reading; what ties the two backends together statement by statement is A-EMIT",
    "known differences found by the bounded stand-in are listed in known_findings.json (D22, D31, ...)",
]
EXPLANATION = ("PARTIAL (category other): decided are (1) the step protocol - NumpyInterpreter.run and the emitted `run` template are both proved "
               "against one contract: every body event forwarded in order, then StepFailed(t) without counting the step or "
               "StepCompleted(dt, t, current, next) with next = the switched-to phase or the default successor, the stepper continuing in "
               "exactly that phase, the loop stopping only at a step boundary where t_end or max_steps is reached, other exceptions "
               "propagating; (2) both run_single_step implementations move next_phase to the default successor before the body and forward "
               "every event; (3) resolve_args implements Python call binding exactly (values and TypeError conditions); (4) exec_Assign raises "
               "nothing but evaluation errors (zero-trip loops included); (5) the interpreter's builtins take the registry's argument names. "
               "(6) statement-level templates of the Python generator parse to the reference statements and lower_node emits text with exactly the structured program's trace. NOT decided: that emitted EXPRESSION text computes what the interpreter computes (A-EXPR) and the whole-program composition - covered only by the bounded "
               "stand-in comparing both backends and a program-order reference executor on generated builder programs.")
