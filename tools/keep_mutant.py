#!/usr/bin/env python3
"""tools/keep_mutant.py <mutant-dir> <seeded-id> <PROP> "<caught-by>" — store a confirmed seeded change"""
import json, os, shutil, sys
src, sid, prop, caught = sys.argv[1:5]
dst = os.path.join(os.path.dirname(os.path.dirname(os.path.abspath(__file__))), "seeded", sid)
os.makedirs(dst, exist_ok=True)
for f in ("patch.diff", "demo.py"):
    shutil.copy(os.path.join(src, f), os.path.join(dst, f))
notes = open(os.path.join(src, "notes.txt")).read().strip() if os.path.exists(os.path.join(src, "notes.txt")) else ""
meta = {"property": prop, "what_it_changes_and_needs_to_manifest": notes,
        "confirmed_by": ["git -C /repo apply patch.diff", "pytest baseline: 116 passed with the patch",
                         "demo.py: PASS on the clean tree, FAIL with the patch",
                         "./check %s with the patch applied to /repo, then git -C /repo checkout -- ." % prop],
        "result_of_our_check": caught,
        "author": "independent sub-agent given only the property text and a scratch worktree"}
json.dump(meta, open(os.path.join(dst, "meta.json"), "w"), indent=1)
print("kept", dst)
