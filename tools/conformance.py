#!/usr/bin/env python3
"""tools/conformance.py — CPython cross-check of the pyvc engine's encoding of Python.

Every micro-program of conformance/cases/micro.py is (1) run natively on each listed input, (2) executed symbolically by
the engine with the same inputs as constants, with the obligation `result == native result` (must be discharged on every
path that is feasible) and, as a canary, `result == perturbed result` (must NOT be discharged).  A construct the engine
does not model is reported as `unsupported` (that is the engine's honest answer, not a failure); a discharged canary or
an undischarged equality is a soundness / completeness defect of the engine.  Run: python3-vt tools/conformance.py"""
import copy
import importlib.util
import os
import sys
HERE = os.path.dirname(os.path.dirname(os.path.abspath(__file__)))
os.environ["DAGRT_REPO"] = os.path.join(HERE, "conformance")
sys.path.insert(0, HERE)
import z3                                            # noqa: E402
from pyvc.values import *                            # noqa: E402,F401,F403
from pyvc.contracts import FunctionContract, FunctionUnit   # noqa: E402
from pyvc import solve                               # noqa: E402

spec = importlib.util.spec_from_file_location("micro", os.path.join(HERE, "conformance", "cases", "micro.py"))
micro = importlib.util.module_from_spec(spec)
spec.loader.exec_module(micro)

INTSET = TSet(INT)
INTLIST = TList(INT)
INTDICT = TDict(INT, INT)
SETDICT = None


def to_engine(ctx, v):
    if isinstance(v, bool):
        return VBool(z3.BoolVal(v))
    if isinstance(v, int):
        return VInt(z3.IntVal(v))
    if v is None:
        return NONE
    if isinstance(v, list):
        a = z3.K(z3.IntSort(), z3.IntVal(0))
        for i, x in enumerate(v):
            a = z3.Store(a, i, x)
        return ctx.alloc(VList(INTLIST, z3.IntVal(len(v)), a))
    if isinstance(v, (set, frozenset)):
        t = z3.K(z3.IntSort(), z3.BoolVal(False))
        for x in v:
            t = z3.Store(t, x, True)
        return ctx.alloc(VSet(INTSET, t))
    if isinstance(v, dict):
        dom = z3.K(z3.IntSort(), z3.BoolVal(False))
        val = z3.K(z3.IntSort(), z3.IntVal(0))
        for k, x in v.items():
            dom = z3.Store(dom, k, True)
            val = z3.Store(val, k, x)
        return ctx.alloc(VDict(INTDICT, dom, val))
    if isinstance(v, tuple):
        return VTuple([to_engine(ctx, x) for x in v])
    raise TypeError(v)


def equal_formula(st, r, expected):
    r = st._deref(r)
    if isinstance(expected, bool):
        return r.t == z3.BoolVal(expected) if isinstance(r, VBool) else z3.BoolVal(False)
    if isinstance(expected, int):
        return r.t == expected if isinstance(r, VInt) else z3.BoolVal(False)
    if expected is None:
        return z3.BoolVal(isinstance(r, VNone))
    if isinstance(expected, tuple):
        if not (isinstance(r, VTuple) and len(r.items) == len(expected)):
            return z3.BoolVal(False)
        return z3.And(*[equal_formula(st, x, e) for x, e in zip(r.items, expected)])
    raise TypeError(expected)


def perturb(v):
    if isinstance(v, bool):
        return not v
    if isinstance(v, int):
        return v + 1
    if v is None:
        return 0
    if isinstance(v, tuple):
        return (perturb(v[0]),) + tuple(v[1:])
    raise TypeError(v)


class Concrete(FunctionContract):
    relpath = "cases/micro.py"
    prop = "conformance"
    any_raise_ok = False

    def __init__(self, name, args, expected, canary):
        self.qualname = name
        self.args = args
        self.expected = expected
        self.canary = canary
        import inspect
        self.argnames = list(inspect.signature(getattr(micro, name)).parameters)

    def params(self, ctx):
        for n, v in zip(self.argnames, self.args):
            ctx.env[n] = to_engine(ctx, copy.deepcopy(v))

    def type_of_literal(self, node):
        return INTSET

    def m_len_set(self, ctx, it, args, kw):
        raise Unsupported("helper call")

    names = property(lambda self: {"len_set": VFunc("len_set", self.m_helper)})

    def m_helper(self, ctx, it, args, kw):
        # helper functions are called by CONTRACT in pyvc; here: the native result on the concrete set
        raise Unsupported("call of another function (modular calls are by contract)")

    loops = {k: dict(inv=lambda s: []) for k in range(4)}

    def ensures(self, st):
        want = self.canary if self.canary is not None else self.expected
        return [("result-equals", equal_formula(st, st.result, want))]


CASES = [
    ("arith", [(3, 4), (20, 1), (-30, 2), (5, 5), (0, 200)]),
    ("chained", [(1, 2, 2), (1, 3, 2), (2, 2, 5)]),
    ("alias_lists", [([1, 2],), ([],)]),
    ("pop_order", [([1, 2, 3],), ([5, 9],)]),
    ("dict_ops", [({1: 10, 2: 20}, 1), ({1: 10}, 3), ({4: 1, 5: 2}, 4)]),
    ("try_flow", [({1: 10}, 1), ({1: 10}, 2)]),
    ("nested_try", [([4],), ([],)]),
    ("tuple_swap", [(1, 2), (7, -3)]),
    ("bool_mix", [(True, False), (True, True), (False, False)]),
    ("none_flow", [(3,), (-1,)]),
    ("augmented_set", [({1, 2}, {5}), ({5}, {1})]),
    # loops are cut at an invariant (`true` here), so only the soundness direction is meaningful: the engine must never
    # prove a wrong result
    ("loop_else", [([1, 2, 3], 2), ([1, 2, 3], 9), ([], 1)]),
    ("loop_sum", [([1, -2, 3],), ([5, 200, 7],), ([],)]),
    ("while_count", [(0,), (3,)]),
]
CANARY_ONLY = {"loop_else", "loop_sum", "while_count"}


def run_case(name, args):
    fn = getattr(micro, name)
    try:
        expected = fn(*copy.deepcopy(args))
    except Exception as ex:
        return "native-raises(%s)" % type(ex).__name__
    out = []
    for canary in (None, perturb(expected)):
        u = FunctionUnit(Concrete(name, args, expected, canary))
        try:
            ax, obs, info = u.generate()
        except Unsupported as ex:
            return "unsupported: %s" % str(ex)[:80]
        res = solve.discharge([(ax, obs)], timeout_ms=5000, use_cvc5=False)
        eq = [r for r in res if "result-equals" in r.name]
        other_bad = [r for r in res if "result-equals" not in r.name and r.status != "unsat"]
        if canary is None and name in CANARY_ONLY:
            pass
        elif canary is None:
            if not eq or any(r.status != "unsat" for r in eq) or other_bad:
                return "MISMATCH: engine does not prove result == %r (%s)" % (expected, [(r.name[-40:], r.status) for r in eq + other_bad][:3])
        else:
            if eq and all(r.status == "unsat" for r in eq):
                return "UNSOUND: engine proves the perturbed result %r as well (vacuous path conditions?)" % (canary,)
        out.append(len(obs))
    return "ok (%d paths' obligations)" % out[0]


def main():
    bad = 0
    n = 0
    for name, inputs in CASES:
        for args in inputs:
            r = run_case(name, args)
            n += 1
            flag = "" if r.startswith(("ok", "unsupported")) else "   <<<<<<"
            bad += 1 if flag else 0
            print("%-18s %-28s %s%s" % (name, str(args)[:28], r, flag))
    print("conformance: %d runs, %d defects" % (n, bad))
    return 1 if bad else 0


if __name__ == "__main__":
    sys.exit(main())
