"""C15, third clause: the generated text does not depend on what a previous, separate generator object produced in the same
process.  What can carry information from one generator object to the next is state that outlives a generator:

  (S1) module-level objects: the CallCode templates of the Fortran built-ins (fortran.py: builtin_*), the base function
       registry with its Function objects (function_registry.py), codegen/utils.py: _ident_chars, builtins_python.builtins
  (S2) class attributes shared by all instances (default_dict = {} of the Function classes, ...)
  (S3) mutable default arguments (created once, at definition time)
  (S4) module globals rebound through `global`

Frame conditions, decided by pyvc.frame on the real source (enumerated from the AST on every run, so a new method gets its
obligation automatically):

  F1  CallCode.__call__ modifies nothing reachable from self
  F2  every method (other than __init__) of every class of function_registry.py modifies nothing reachable from self or from a
      shared class attribute; dagrt.utils.resolve_args does not modify its arguments (summary used by Function.resolve_args)
  F3  every function of the generator modules that mentions an S1 / S2 / S3 object modifies nothing reachable from it, and
      no function rebinds one through `global`

Not covered here (stated in the evidence): state outside dagrt (pytools' UniqueNameGenerator instances are per generator
object; mako caches compiled templates per Template object, which does not change the rendered text: A-FRAME-LIB), and the
process-global counter behind ArrayType's default index names (an assumption on the inputs, DESIGN.md).
"""
import ast

from pyvc.values import *  # noqa
from pyvc.contracts import FrameUnit
from pyvc import extract

PROP = "C15"

MODULES = ["dagrt/codegen/fortran.py", "dagrt/codegen/python.py", "dagrt/codegen/utils.py", "dagrt/codegen/dag_ast.py",
           "dagrt/codegen/codegen_base.py", "dagrt/codegen/transform.py", "dagrt/codegen/analysis.py",
           "dagrt/codegen/expressions.py", "dagrt/function_registry.py", "dagrt/builtins_python.py", "dagrt/exec_numpy.py",
           "dagrt/language.py", "dagrt/data.py", "dagrt/expression.py", "dagrt/utils.py"]
IMPORTED_SINGLETONS = {"base_function_registry", "builtins"}
NOT_STATE = {"logger", "NoneType", "__doc__", "__all__", "__copyright__", "__license__"}


def module_roots(tree):
    """module-level names bound to objects (not to functions, classes, strings or numbers)"""
    out = set()
    for n in tree.body:
        if isinstance(n, (ast.Assign, ast.AnnAssign)) and n.value is not None:
            v = n.value
            if isinstance(v, ast.Constant) and not isinstance(v.value, (bytes,)):
                continue
            if isinstance(v, ast.BinOp) and all(isinstance(x, (ast.Constant, ast.Name)) for x in (v.left, v.right)):
                # PREC_IFTHENELSE = PREC_LOGICAL_OR - 1: a number
                continue
            for t in (n.targets if isinstance(n, ast.Assign) else [n.target]):
                for x in ast.walk(t):
                    if isinstance(x, ast.Name) and x.id not in NOT_STATE:
                        out.add(x.id)
        elif isinstance(n, ast.ImportFrom) and (n.module or "").startswith("dagrt"):
            for al in n.names:
                if al.name in IMPORTED_SINGLETONS:
                    out.add(al.asname or al.name)
    return out


def shared_class_attrs(tree):
    """class-level attributes bound to mutable objects (shared by all instances)"""
    out = set()
    for c in ast.walk(tree):
        if isinstance(c, ast.ClassDef):
            for n in c.body:
                if isinstance(n, (ast.Assign, ast.AnnAssign)) and n.value is not None:
                    v = n.value
                    if isinstance(v, (ast.Dict, ast.List, ast.Set, ast.ListComp, ast.DictComp, ast.SetComp)) or (
                            isinstance(v, ast.Call) and not (isinstance(v.func, ast.Name) and v.func.id in ("intern", "tuple",
                                                                                                          "frozenset"))):
                        for t in (n.targets if isinstance(n, ast.Assign) else [n.target]):
                            if isinstance(t, ast.Name):
                                out.add(t.id)
    return out


def functions_of(tree):
    """qualnames of all top-level functions and methods (nested functions are analysed with their parent)"""
    out = []
    for n in tree.body:
        if isinstance(n, ast.FunctionDef):
            out.append((n.name, None, n))
        elif isinstance(n, ast.ClassDef):
            for m in n.body:
                if isinstance(m, ast.FunctionDef):
                    out.append(("%s.%s" % (n.name, m.name), n, m))
    return out


def _dupes(fs):
    seen, d = set(), set()
    for q, _, _ in fs:
        if q in seen:
            d.add(q)
        seen.add(q)
    return d


# dagrt.utils.resolve_args(arg_names, default_dict, arg_dict): the first two may be shared objects (class attributes of the
# Function classes); arg_dict is the caller's own dictionary (copied by resolve_args before it pops from it)
RESOLVE_ARGS_SUMMARY = {"resolve_args": {0, 1, "arg_names", "default_dict"}}
KIND_CONSTRUCTORS = {"Array", "UserType", "Scalar", "Integer", "Boolean"}


def units():
    us = []
    # F1
    tree, _ = extract.parse_module("dagrt/codegen/fortran.py")
    cc = [n for n in tree.body if isinstance(n, ast.ClassDef) and n.name == "CallCode"]
    cc_methods = {m.name for m in cc[0].body if isinstance(m, ast.FunctionDef)} if cc else set()
    for m in sorted(cc_methods - {"__init__"}):
        us.append(FrameUnit("dagrt/codegen/fortran.py", "CallCode." + m, {"self"}, "self(a-module-level-template-object)",
                            own_methods=cc_methods))
    # F2
    rel = "dagrt/function_registry.py"
    tree, _ = extract.parse_module(rel)
    shared = shared_class_attrs(tree)
    all_methods = {m.name for c in tree.body if isinstance(c, ast.ClassDef) for m in c.body if isinstance(m, ast.FunctionDef)}
    fs = functions_of(tree)
    dup = _dupes(fs)
    for q, cls, fn in fs:
        if cls is None or fn.name == "__init__" or q in dup:
            continue
        if any(isinstance(d, ast.Name) and d.id == "staticmethod" for d in fn.decorator_list):
            continue
        us.append(FrameUnit(rel, q, {"self"}, "self-and-shared-class-attributes(objects-of-the-base-function-registry)",
                            attr_roots=shared, own_methods=all_methods, summaries=RESOLVE_ARGS_SUMMARY,
                            interior_methods=all_methods - {"__init__"}, pure_constructors=KIND_CONSTRUCTORS))
    us.append(FrameUnit("dagrt/utils.py", "resolve_args", {"arg_names", "default_dict"}, "arg_names-and-default_dict"))
    # F3
    f2 = {u.label for u in us}
    for rel in MODULES:
        tree, _ = extract.parse_module(rel)
        roots = module_roots(tree)
        shared = shared_class_attrs(tree)
        fs = functions_of(tree)
        dup = _dupes(fs)
        for q, cls, fn in fs:
            if q in dup:
                continue
            u = FrameUnit(rel, q, roots, "module-level-objects-shared-class-attributes-and-mutable-defaults",
                          attr_roots=shared, module_roots=roots,
                          own_methods={m.name for m in (cls.body if cls else []) if isinstance(m, ast.FunctionDef)},
                          summaries=RESOLVE_ARGS_SUMMARY, pure_constructors=KIND_CONSTRUCTORS)
            u.label = "frame-shared-state:%s:%s" % (rel, q)
            # only functions that can reach such an object at all carry an obligation
            src = ast.dump(fn)
            from pyvc.frame import mutable_default_params
            touches = (any(("id='%s'" % r) in src for r in roots) or any(("attr='%s'" % a) in src for a in shared)
                       or "Global(" in src or mutable_default_params(fn))
            if touches:
                us.append(u)
    us.append(DecoratorScan())
    return us


# decorators of the unchanged tree that keep a value between calls, each on an object that is built per generator run or is an
# immutable record (ExecutionPhase.depends_on / id_to_stmt; CodeBuilder._var_name_generator, a builder's own generator)
MEMO_OK = {("dagrt/language.py", "ExecutionPhase.depends_on", "memoize_method"),
           ("dagrt/language.py", "ExecutionPhase.id_to_stmt", "memoize_method"),
           ("dagrt/language.py", "CodeBuilder._var_name_generator", "memoize_method")}
STATELESS_DECORATORS = {"property", "staticmethod", "classmethod", "abstractmethod", "contextmanager"}


class DecoratorScan:
    """F4: a decorator can keep state that outlives a generator object (a memo table on a module-level function, or on the
    DAGCode handed to two generators): every decorator of the generator modules is one that keeps none, or one of the
    memoised properties listed above.  Anything else is outside what the frame conditions account for: undecided."""
    label = "decorators-keep-no-state-between-generator-objects"
    extracted = None
    engine = None
    contract = None

    def generate(self):
        import z3
        from pyvc.engine import Obligation
        unknown = []
        n = 0
        for rel in MODULES:
            tree, _ = extract.parse_module(rel)
            for q, cls, fn in functions_of(tree):
                for d in fn.decorator_list:
                    n += 1
                    txt = ast.unparse(d)
                    if txt in STATELESS_DECORATORS or txt.endswith(".setter") or (rel, q, txt) in MEMO_OK:
                        continue
                    unknown.append("%s:%s @%s" % (rel, q, txt))
        if unknown:
            raise Unsupported("decorators that may keep state between generator objects: %s" % ", ".join(unknown))
        return [], [Obligation(self.label + "/every-decorator-is-stateless-or-a-listed-memoised-property(%d)" % n, [],
                               z3.BoolVal(True))], {"decorators": n}


def scope_info():
    info = {}
    for rel in MODULES:
        tree, _ = extract.parse_module(rel)
        info[rel] = {"module_level_objects": sorted(module_roots(tree)), "shared_class_attributes": sorted(shared_class_attrs(tree)),
                     "functions": len(functions_of(tree))}
    return info
