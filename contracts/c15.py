"""C15 — generated source text is a pure function of the method description (partial).

Byte identity across processes and hash seeds is an observation about whole runs, not a function contract:
NOT decided here (bounded stand-in only).  Decided, for the six anchored files, from the real source on every
run: *every iteration whose order could depend on hashing has an order-insensitive effect.*

  1. every iteration site (for, comprehension, str.join, list()/tuple()/next(iter()) conversion) is enumerated;
  2. its iterable is classified ORDERED / UNORDERED by a conservative taint analysis: unordered sources are set
     and frozenset constructors, literals, comprehensions and operators, the attribute `depends_on`, the results
     of get_read_variables / get_written_variables / get_variables / existing_var_names and anything assigned
     from those inside the same function; `sorted(...)` (and natsorted) launder;
  3. for each UNORDERED site one obligation: the site is an order-insensitive pattern (its effect is a function
     of the set iterated): building a set / dict keyed by the element / a boolean / a count, or a loop whose body
     only adds to sets, stores under the element as key, or recurses into a function whose own sites are
     obligations too.  By L-PERM a loop whose iterations commute pairwise is order independent.
An unclassifiable site is an undischarged obligation (never silently green).
"""
import ast as pyast
import z3

from pyvc.contracts import Unit, LeanUnit
from pyvc.engine import Obligation
from pyvc import extract

PROP = "C15"
FILES = ["dagrt/codegen/fortran.py", "dagrt/codegen/python.py", "dagrt/codegen/dag_ast.py",
         "dagrt/codegen/transform.py", "dagrt/codegen/analysis.py", "dagrt/language.py"]

# global_table: the kind table's global part is (also) filled in a loop over a set of component ids (fortran.py, keyed store
# through SymbolKindTable.set), so its insertion order follows the hash order: every iteration over it must be laundered
UNORDERED_ATTRS = {"depends_on", "global_table", "per_phase_table"}      # per_phase_table: loop counters enter it from a set
KEYED_STORE_METHODS = {"set": "SymbolKindTable.set(phase, name, kind) stores under `name`; entries under distinct names commute "
                              "(the table's insertion order does not: global_table is treated as unordered)"}
UNORDERED_CALLS = {"set", "frozenset", "get_read_variables", "get_written_variables", "get_variables",
                   "existing_var_names", "get_names_in_ast_structure", "intersection", "union", "difference",
                   "collect_user_types", "get_all_used_identifiers"}
LAUNDER = {"sorted", "natsorted", "len", "any", "all", "sum", "min", "max", "set", "frozenset", "bool"}
ORDER_FREE_CONSUMERS = {"set", "frozenset", "sorted", "natsorted", "any", "all", "len", "sum", "min", "max", "dict"}
# attributes that identify an element uniquely within the collections that are sorted by them
UNIQUE_ATTRS = {"id": "statement ids are unique within a phase (checked by verify_code, C10)",
                "name": "function descriptors are registered under distinct names"}
SET_MUTATORS = {"add", "update", "discard", "remove", "difference_update", "intersection_update"}


def func_name(call):
    f = call.func
    if isinstance(f, pyast.Name):
        return f.id
    if isinstance(f, pyast.Attribute):
        return f.attr
    return None


class Taint:
    """which local names hold unordered collections inside one function (flow-insensitive, conservative)"""

    def __init__(self, fn):
        self.names = set()
        changed = True
        while changed:
            changed = False
            for node in pyast.walk(fn):
                tgt, val = None, None
                if isinstance(node, pyast.Assign) and len(node.targets) == 1 and isinstance(node.targets[0], pyast.Name):
                    tgt, val = node.targets[0].id, node.value
                elif isinstance(node, pyast.AugAssign) and isinstance(node.target, pyast.Name):
                    tgt, val = node.target.id, node.value
                if tgt and tgt not in self.names and self.unordered(val):
                    self.names.add(tgt)
                    changed = True

    def unordered(self, e):
        if isinstance(e, (pyast.Set, pyast.SetComp)):
            return True
        if isinstance(e, pyast.Name):
            return e.id in self.names
        if isinstance(e, pyast.Attribute):
            return e.attr in UNORDERED_ATTRS
        if isinstance(e, pyast.Subscript) and isinstance(e.value, pyast.Attribute) and e.value.attr in UNORDERED_ATTRS:
            return True
        if isinstance(e, pyast.Call):
            n = func_name(e)
            if n in ("sorted", "natsorted", "list", "tuple", "reversed", "enumerate") and e.args:
                return False if n in ("sorted", "natsorted") else self.unordered(e.args[0])
            if n in UNORDERED_CALLS:
                return True
            if n in ("keys", "values", "items") and isinstance(e.func, pyast.Attribute):
                return self.unordered(e.func.value)      # dict views follow their dict (dicts are insertion ordered)
            if n in ("get", "setdefault") and isinstance(e.func, pyast.Attribute) and isinstance(e.func.value, pyast.Attribute) \
                    and e.func.value.attr in UNORDERED_ATTRS:
                return True                              # an inner table of such a table (per_phase_table.get(phase, {}))
            if n == "iter" and e.args:
                return self.unordered(e.args[0])
            return False
        if isinstance(e, pyast.BinOp) and isinstance(e.op, (pyast.BitOr, pyast.BitAnd, pyast.Sub, pyast.BitXor)):
            return self.unordered(e.left) or self.unordered(e.right)
        if isinstance(e, pyast.IfExp):
            return self.unordered(e.body) or self.unordered(e.orelse)
        return False


_DISCOVERED = {}


def discover_unordered_returns():
    """functions of the scanned files that return an unordered collection (a `return` whose value the taint analysis classifies
    as unordered), added to UNORDERED_CALLS by name until nothing changes; re-done when a file changes"""
    import os
    key = tuple((rel, os.stat(os.path.join(extract.REPO, rel)).st_mtime_ns) for rel in FILES)
    if _DISCOVERED.get("key") == key:
        return _DISCOVERED["names"]
    found = set()
    changed = True
    while changed:
        changed = False
        for rel in FILES:
            tree, _ = extract.parse_module(rel)
            for fn in [n for n in pyast.walk(tree) if isinstance(n, pyast.FunctionDef)]:
                if fn.name in UNORDERED_CALLS:
                    continue
                taint = None
                for node in pyast.walk(fn):
                    if isinstance(node, pyast.Return) and node.value is not None:
                        # a return of a nested function belongs to that function
                        taint = taint or Taint(fn)
                        if taint.unordered(node.value) and _owner(fn, node) is fn:
                            UNORDERED_CALLS.add(fn.name)
                            found.add("%s:%s" % (rel, fn.name))
                            changed = True
                            break
    _DISCOVERED["key"], _DISCOVERED["names"] = key, sorted(found)
    return _DISCOVERED["names"]


def _owner(fn, node):
    """the innermost function definition of fn's tree that contains node"""
    best = fn
    for d in pyast.walk(fn):
        if isinstance(d, (pyast.FunctionDef, pyast.Lambda)) and d is not fn:
            if any(x is node for x in pyast.walk(d)):
                best = d
    return best


def body_is_order_insensitive(stmts, var_names, taint):
    """a loop body whose executions for different elements commute: it only grows sets, stores under a key that
    is the element itself, or skips; no output, no append, no early exit that depends on order"""
    for st in stmts:
        if isinstance(st, pyast.Pass) or isinstance(st, pyast.Continue):
            continue
        if isinstance(st, pyast.Expr) and isinstance(st.value, pyast.Call):
            c = st.value
            if isinstance(c.func, pyast.Attribute) and c.func.attr in SET_MUTATORS:
                continue
            if isinstance(c.func, pyast.Attribute) and c.func.attr in KEYED_STORE_METHODS and any(
                    _names(a) & var_names for a in c.args[:2]):
                continue                                   # table.set(scope, <key built from the element>, value)
            return False
        if isinstance(st, pyast.Expr) and isinstance(st.value, pyast.Constant):
            continue
        if isinstance(st, pyast.AugAssign) and isinstance(st.op, (pyast.BitOr, pyast.BitAnd, pyast.Sub)):
            continue
        if isinstance(st, pyast.Assign) and len(st.targets) == 1 and isinstance(st.targets[0], pyast.Subscript):
            key = st.targets[0].slice
            keys = key.elts if isinstance(key, pyast.Tuple) else [key]
            if any(isinstance(k_, pyast.Name) and k_.id in var_names for k_ in keys):
                continue                                   # d[element(, ...)] = ...: distinct elements, distinct keys
            return False
        if isinstance(st, pyast.Assign) and all(isinstance(t, pyast.Name) for t in st.targets):
            # a local computed from the element, used inside the same iteration only
            continue
        if isinstance(st, pyast.If):
            if body_is_order_insensitive(st.body, var_names, taint) and body_is_order_insensitive(st.orelse, var_names, taint):
                continue
            return False
        if isinstance(st, pyast.For):
            if body_is_order_insensitive(st.body, var_names | _names(st.target), taint):
                continue
            return False
        if isinstance(st, pyast.Raise):
            continue                                       # an error exit: no text is produced
        if isinstance(st, pyast.Assert):
            continue
        return False
    return True


def _names(t):
    return {n.id for n in pyast.walk(t) if isinstance(n, pyast.Name)}


def parent_map(fn):
    pm = {}
    for node in pyast.walk(fn):
        for ch in pyast.iter_child_nodes(node):
            pm[ch] = node
    return pm


def sites_of(relpath):
    tree, text = extract.parse_module(relpath)
    out = []
    funcs = [n for n in pyast.walk(tree) if isinstance(n, (pyast.FunctionDef, pyast.Lambda))]
    tops = [tree] + funcs
    seen = set()
    for fn in funcs:
        taint = Taint(fn)
        pm = parent_map(fn)
        qual = getattr(fn, "name", "<module>")
        for node in pyast.walk(fn):
            if id(node) in seen:
                continue
            # nested functions are visited on their own (with their own taint), but their sites are the same nodes
            site = None
            if isinstance(node, pyast.For):
                site = ("for", node.iter, node)
            elif isinstance(node, (pyast.ListComp, pyast.GeneratorExp, pyast.SetComp, pyast.DictComp)):
                for g in node.generators:
                    if taint.unordered(g.iter):
                        site = ("comprehension", g.iter, node)
                        break
                if site is None:
                    continue
            elif isinstance(node, pyast.Call) and func_name(node) in ("sorted", "natsorted") and node.args:
                # sorting launders the order of an unordered collection only if the sort key separates all
                # distinct elements (Python's sort is stable: ties keep the incoming, i.e. hash, order)
                site = ("sort", node.args[0], node)
            elif isinstance(node, pyast.Call) and func_name(node) in ("list", "tuple", "join", "next") and node.args:
                arg = node.args[0]
                if isinstance(arg, (pyast.ListComp, pyast.GeneratorExp)):
                    continue               # handled as a comprehension site
                site = ("conversion:" + func_name(node), arg, node)
            if site is None:
                continue
            kind, it, n = site
            if not taint.unordered(it):
                continue
            seen.add(id(node))
            out.append((relpath, qual, kind, it, n, pm, taint))
    return out


# functions whose order independence is established elsewhere: their pyvc contracts execute every set
# iteration in ARBITRARY order, so the proved postcondition holds for every order (or the effect is confined to the
# diagnostics of a rejected method / to the interpreter's schedule, any of which is admissible by C02 + C04 + L-PERM)
BY_CONTRACT = {
    "_add_statement": "C02: contract proved with set iteration in arbitrary order",
    "depends_on": "C04: ExecutionPhase.depends_on contract proved with set iteration in arbitrary order",
    "add_with_deps": "interpreter schedule: every order yields an admissible schedule (C04), all admissible schedules agree (C02, L-PERM)",
    "update_plan": "interpreter schedule: every order yields an admissible schedule (C04), all admissible schedules agree (C02, L-PERM)",
    "verify_all_dependencies_exist": "C10: contract proved with arbitrary order; only the text of diagnostics of a rejected method depends on the order",
    "verify_no_circular_dependencies": "C10: contract proved with arbitrary order; only which cycle is reported depends on the order",
    "verify_single_definition_cond_rule": "C10: contract proved with arbitrary order; only diagnostics depend on the order",
    "verify_switch_phases": "C10: contract proved with arbitrary order; only diagnostics depend on the order",
}


def classify(kind, it, node, pm, taint, qual=None):
    """-> (ok, reason)"""
    if qual in BY_CONTRACT:
        return True, BY_CONTRACT[qual]
    par = pm.get(node)
    if kind == "for":
        ok = body_is_order_insensitive(node.body, _names(node.target), taint) and not node.orelse
        return ok, ("loop body only grows sets / stores under the element / skips" if ok
                    else "loop body has order-sensitive effects (appends, emits, names or numbers things in iteration order)")
    if kind == "comprehension":
        if isinstance(node, (pyast.SetComp, pyast.DictComp)):
            return True, "set / dict comprehension: the result is a function of the set iterated"
        # list / generator: fine if consumed by an order-free consumer
        if isinstance(par, pyast.Call) and func_name(par) in ORDER_FREE_CONSUMERS:
            return True, "consumed by %s(...)" % func_name(par)
        if isinstance(par, pyast.Call) and func_name(par) in SET_MUTATORS | {"update"}:
            return True, "fed to a set/dict update"
        return False, "list / generator over an unordered collection whose consumer may depend on the order"
    if kind == "sort":
        keys = [k for k in node.keywords if k.arg == "key"]
        if not keys:
            return True, "sorted without a key: elements (strings / tuples of strings) are totally ordered"
        k = keys[0].value
        txt = pyast.unparse(k)
        if isinstance(k, pyast.Lambda) and len(k.args.args) == 1 and isinstance(k.body, pyast.Attribute) \
                and isinstance(k.body.value, pyast.Name) and k.body.value.id == k.args.args[0].arg \
                and k.body.attr in UNIQUE_ATTRS:
            return True, "sort key %s: %s" % (txt, UNIQUE_ATTRS[k.body.attr])
        if txt in ("itemgetter(0)", "operator.itemgetter(0)") and pyast.unparse(node.args[0]).endswith(".items()"):
            return True, "sort key itemgetter(0) over dict items: keys of a dict are distinct"
        return False, ("sorted with key %s, which is not known to separate distinct elements: ties keep the hash order "
                       "of the collection" % txt)
    if kind.startswith("conversion"):
        if isinstance(par, pyast.Call) and func_name(par) in ORDER_FREE_CONSUMERS:
            return True, "consumed by %s(...)" % func_name(par)
        if kind == "conversion:list" and isinstance(par, pyast.For):
            return False, "list(<set>) iterated"
        return False, "%s of an unordered collection" % kind.split(":")[1]
    return False, "unclassified site"


class SitesUnit(Unit):
    def __init__(self):
        self.label = "sites"

    def generate(self):
        obs = []
        info = {"files": FILES, "unordered_sites": 0, "all_iteration_sites": 0,
                "functions_found_to_return_unordered_collections": discover_unordered_returns()}
        for rel in FILES:
            tree, _ = extract.parse_module(rel)
            info["all_iteration_sites"] += sum(
                1 for n in pyast.walk(tree)
                if isinstance(n, (pyast.For, pyast.ListComp, pyast.GeneratorExp, pyast.SetComp, pyast.DictComp)))
            for relpath, qual, kind, it, node, pm, taint in sites_of(rel):
                ok, why = classify(kind, it, node, pm, taint, qual)
                info["unordered_sites"] += 1
                # names are stable against line shifts: file, function, kind, iterable text, ordinal
                base = "%s:%s/%s over `%s`" % (relpath, qual, kind, pyast.unparse(it)[:60])
                k = sum(1 for o in obs if o.name.startswith("sites/" + base))
                ob = Obligation("sites/%s#%d/effect-is-order-insensitive" % (base, k), [], z3.BoolVal(ok), line=node.lineno, note=why)
                ob.external = {"ok": ok, "seconds": 0.0, "backend": "effect-pattern classifier (ast)",
                               "output": "L%d: %s" % (node.lineno, why)}
                obs.append(ob)
        if info["all_iteration_sites"] < 100:
            ob = Obligation("sites/enumeration-found-the-iteration-sites", [], z3.BoolVal(False))
            ob.external = {"ok": False, "seconds": 0.0, "backend": "ast", "output": "only %d sites" % info["all_iteration_sites"]}
            obs.append(ob)
        return [], obs, info


class GlobalStateUnit(Unit):
    """no module-level mutable state is written by the generators except ArrayType.INDEX_VAR_COUNTER"""

    def __init__(self):
        self.label = "global-state"

    def generate(self):
        found = []
        for rel in FILES:
            tree, _ = extract.parse_module(rel)
            for fn in [n for n in pyast.walk(tree) if isinstance(n, pyast.FunctionDef)]:
                for node in pyast.walk(fn):
                    if isinstance(node, pyast.Global):
                        found.append("%s:%s global %s" % (rel, fn.name, ",".join(node.names)))
                    if isinstance(node, (pyast.Assign, pyast.AugAssign)):
                        tgts = node.targets if isinstance(node, pyast.Assign) else [node.target]
                        for t in tgts:
                            if isinstance(t, pyast.Attribute) and isinstance(t.value, pyast.Name) \
                                    and t.value.id[:1].isupper() and t.value.id not in ("self",):
                                found.append("%s:%s writes %s" % (rel, fn.name, pyast.unparse(t)))
        allowed = [f for f in found if "INDEX_VAR_COUNTER" in f]
        other = [f for f in found if f not in allowed]
        ob = Obligation("global-state/generators-write-no-module-level-state-but-ArrayType.INDEX_VAR_COUNTER", [], z3.BoolVal(not other))
        ob.external = {"ok": not other, "seconds": 0.0, "backend": "ast scan", "output": "; ".join(other) or "ok (%s)" % "; ".join(allowed)}
        return [], [ob], {"class_attribute_writes": found}


class SaltedValuesUnit(Unit):
    """hash() of a string / bytes and id() of an object differ from process to process (hash randomisation, addresses): no function
    of the generator modules may call them, except inside a __hash__ method (whose value never reaches emitted text other than
    through set / dict iteration order, which the site obligations cover)"""

    def __init__(self):
        self.label = "salted-values"

    def generate(self):
        from . import c15frame
        found = []
        for rel in sorted(set(FILES) | set(c15frame.MODULES)):
            tree, _ = extract.parse_module(rel)
            for fn in [n for n in pyast.walk(tree) if isinstance(n, pyast.FunctionDef)]:
                if fn.name == "__hash__":
                    continue
                for node in pyast.walk(fn):
                    if isinstance(node, pyast.Call) and isinstance(node.func, pyast.Name) and node.func.id in ("hash", "id"):
                        found.append("%s:%s L%d %s(...)" % (rel, fn.name, node.lineno, node.func.id))
        ob = Obligation("salted-values/no-hash()-or-id()-outside-__hash__-in-the-generator-modules", [], z3.BoolVal(not found),
                        line=None)
        ob.external = {"ok": not found, "seconds": 0.0, "backend": "ast scan", "output": "; ".join(sorted(set(found))) or "none"}
        return [], [ob], {"calls_found": sorted(set(found))}


def units():
    from . import c01driver, c15frame
    return (c01driver.units_c15() + [SitesUnit(), GlobalStateUnit(), SaltedValuesUnit(),
                                     LeanUnit("lemma:L-PERM", "lemmas/LPerm.lean", ["run_eq_of_linear_extensions"])]
            + c15frame.units())


LEVEL = "other"
BOUNDED = {"quick": {"timeout_s": 150}, "thorough": {"timeout_s": 1200}}
TRUSTED_BASE = [
    "the taint analysis' unordered sources: set/frozenset constructors, literals, comprehensions and operators, `.depends_on`, `.global_table`, get_read_variables / get_written_variables / get_variables / existing_var_names, every function of the six files found (on every run) to return such a collection, and locals assigned from them; dicts are insertion ordered and, global_table aside, their insertion order is itself determined by ordered iteration (not re-checked per dict)",
    "L-PERM (Lean): a loop whose iterations commute pairwise has an effect that is a function of the set iterated",
    "the effect patterns accepted as commuting (set growth, store under the element as key, set/dict comprehension, order-free consumers any/all/len/sum/min/max/sorted/set) are commuting",
]
from pyvc.frame import frame_assumptions as _fa
TRUSTED_BASE += _fa() + [
    "A-FRAME-TYPES: the objects reachable from a FunctionRegistry / Function on which register_codegen, get_codegen, resolve_args, get_result_kinds are called are instances of the classes of function_registry.py (each method of which has its own frame obligation) or user classes that keep the same frame condition; constructors of the kind classes (Array, UserType, Scalar, Integer, Boolean) only store their arguments",
    "history clause, scope of the frame conditions: state that outlives a generator object inside dagrt is module-level objects, shared class attributes, mutable default arguments and rebinding through `global` (enumerated from the AST on every run); state inside pytools / mako / pymbolic is not examined",
]
ASSUMPTIONS = [
    "PARTIAL (category other): byte identity of the emitted text across processes, hash seeds and generator histories is NOT decided deductively - only by the bounded stand-in (subprocesses with different PYTHONHASHSEED, shuffled containers, a previous generator in the same process)",
    "ArrayType.INDEX_VAR_COUNTER is process-global: index names of array types built without index_vars depend on history (an input-side assumption: they are fixed when the user builds the type map)",
    "that the interpreter's observable results are independent of set order is C02 + C04 + L-TOPO + L-PERM, not a site obligation",
]
EXPLANATION = ("PARTIAL. From the real source of the six anchored files every iteration site is enumerated, iterables are classified by a "
               "conservative taint analysis, and for every site that iterates an unordered collection one obligation is generated: its effect "
               "is order-insensitive (a set/dict comprehension, an order-free consumer, or a loop body that only grows sets / stores under the "
               "element / skips). A site that does not fit a commuting pattern is an undischarged obligation; on the current tree those are the "
               "recorded findings. History clause: frame conditions (pyvc.frame, a conservative effect analysis of the real AST) show that "
               "CallCode.__call__, every method of the function registry's classes, dagrt.utils.resolve_args and every function that "
               "mentions a module-level object, a shared class attribute or a mutable default argument modify nothing reachable from "
               "them. Not decided: cross-process byte identity itself (bounded stand-in).")
